"""C12 - time steps follow the documented adaptive rule and its bounds.

The real TDGLSolver.update is stepped inside real tdgl runs while solve_for_psi_squared is wrapped
(it is looked up through the instance) to inject scripted refusals; settings are drawn over
(dt_init, dt_max, window 1..12, multiplier, max retries 0..5).  Per step: tentative dt, dt used,
raised / not vs Model.Adapt.astep evaluated over PrimFloat with the implementation's own
max|d|psi|^2| values as data.  Oracle: the documented rule evaluated directly in Python."""
from __future__ import annotations

import random
import tempfile

import numpy as np

from . import common, meshes, runs
from .common import flit, coq_list

HEADER = """From Coq Require Import PrimFloat List ZArith.
Import ListNotations.
From PyTdgl Require Import Base.Ops Model.Adapt.
Open Scope float_scope.
Definition fnth (l : list float) (i : nat) := nth i l 0.
(* one history: options, then per step (threshold above which an attempt is refused, recorded d); Model.Adapt.ahist *)
Definition enc (x : option (float * float)) : float * float := match x with Some p => p | None => (-1, -1) end.
Definition hist (o : opts OpsF) (s : astate OpsF) (step : nat) (l : list (float * float)) : list (float * float) :=
  map enc (ahist OpsF o s step (map (fun td => (fun dt => PrimFloat.ltb (fst td) dt, fun _ : float => snd td)) l)).
"""


def one_history(rep, rng, dev, hid):
    from tdgl.solver.solver import TDGLSolver
    adaptive = rng.random() < 0.8
    # mostly ordinary first steps, sometimes tiny ones (the recorded |d|psi|^2| then sit below the 1e-10 floor)
    dt_init = 10 ** rng.uniform(-4, -2.3) if rng.random() < 0.85 else 10 ** rng.uniform(-10, -6)
    # half of the histories get a generous dt_max so that the proposal 1/2 (dt + dt_init/delta) is NOT clipped and the
    # averaging term (which must use the step actually taken, after retries) is visible
    dt_max = dt_init * (10 ** rng.uniform(0, 1.7) if rng.random() < 0.5 else 10 ** rng.uniform(2.5, 4.5))
    if rng.random() < 0.12:
        dt_max = dt_init                  # adaptivity on but no room to grow: refusals are still retried with smaller steps
    if dt_init < 1e-6:
        dt_max = dt_init * 10 ** rng.uniform(6.5, 8.5)      # the 1e-10 floor of the documented rule decides the proposal
    if hid % 15 == 7:
        # regime fixed by construction (not left to the draw): adaptive, tiny first step, dt_max / dt_init = 10^8.2 .. 10^9, so that
        # the proposal after the warm-up window is dt_init / 1e-10 halved with dt - unclipped, decided by the documented floor alone
        adaptive = True
        dt_init = 10 ** rng.uniform(-10, -8)
        dt_max = dt_init * 10 ** rng.uniform(8.2, 9.0)
    window = rng.randint(1, 12)
    mult = rng.choice([0.25, 0.5, 0.1, 0.75, 0.33])
    max_retries = rng.randint(0, 5)
    nsteps = rng.randint(window + 3, window + 14)
    screening = adaptive and rng.random() < 0.25 and hid % 15 != 7
    if screening and hid % 2 == 0:
        # feature pair adaptive + screening with room to grow: the proposal is then NOT clipped, so the window (which counts solve
        # steps, whatever the number of self-consistency iterations inside each) is visible in the step sequence
        dt_init = 10 ** rng.uniform(-4, -3)
        dt_max = dt_init * 10 ** rng.uniform(2.5, 4.0)
        window = rng.randint(1, 4)
        nsteps = rng.randint(window + 6, window + 12)
    # refusal script: number of refused attempts per step
    script = []
    for i in range(nsteps + 5):
        r = rng.random()
        if r < 0.7:
            script.append(0)
        elif r < 0.93:
            script.append(rng.randint(1, max_retries + 1))
        else:
            script.append(max_retries + 2 if rng.random() < 0.5 else rng.randint(1, max_retries + 1))
    if (not adaptive and rng.random() < 0.5) or screening:
        # with screening the Euler step runs once per self-consistency iteration, each with its own retry counter: the
        # single retry loop of Model.Adapt does not describe that; those histories exercise the bookkeeping only
        script = [0] * len(script)
    cfg = dict(id=hid, screening=screening, adaptive=adaptive, dt_init=dt_init, dt_max=dt_max, window=window, mult=mult, max_retries=max_retries,
               script=script[:nsteps + 2])
    steps = []
    dmax_bad = []
    state = {"step": -1, "attempt": 0}
    raised = None
    with tempfile.TemporaryDirectory(prefix="pyt_c12_") as td:
        # the flag in any truthy / falsy form (bool, numpy bool, int), the integer options as numpy integers now and then
        aform = rng.choice([bool, np.bool_, int])
        iform = rng.choice([int, np.int64])
        opts = runs.make_options(td, solve_time=1e9, dt_init=dt_init, dt_max=dt_max, adaptive=aform(adaptive), adaptive_window=iform(window),
                                 adaptive_time_step_multiplier=mult, max_solve_retries=iform(max_retries),
                                 save_every=rng.choice([1, 2, 3, 5, 1000]),     # the rule must not see the save interval
                                 # ... nor the screening iterations (one recorded value per solve step, not per iteration)
                                 **(dict(include_screening=True, screening_tolerance=1e-2) if screening else {}))
        try:
            TDGLSolver(dev, opts, applied_vector_potential=0.4, terminal_currents={"source": 2.0, "drain": -2.0})
        except Exception as e:  # noqa: BLE001
            rep.violation(f"valid time-step options (0 < dt_init <= dt_max) were refused: {type(e).__name__}: {e}"[:240],
                          {k: cfg[k] for k in ("adaptive", "dt_init", "dt_max", "window", "mult", "max_retries")})
            cfg["skip_model"] = True
            return cfg, [], None
        if rng.random() < 0.3:
            # history form: ONE options object used before with the other setting of the adaptive switch (validated, handed to
            # a solver), then only the switch is changed and the object is used again - every other field must still count
            opts.adaptive = aform(not adaptive)
            TDGLSolver(dev, opts, applied_vector_potential=0.4, terminal_currents={"source": 2.0, "drain": -2.0})
            opts.adaptive = aform(adaptive)
            cfg["options_reused"] = True
        solver = TDGLSolver(dev, opts, applied_vector_potential=0.4, terminal_currents={"source": 2.0, "drain": -2.0})
        orig_static = TDGLSolver.solve_for_psi_squared
        orig_update = solver.update

        class Stop(Exception):
            pass

        def sps(**kw):
            k = state["attempt"]
            state["attempt"] += 1
            state.setdefault("dts", []).append(float(kw["dt"]))
            if k < script[state["step"]]:
                state["refused"] += 1
                return None
            r = orig_static(**kw)
            if r is None:
                state["refused"] += 1                       # a genuine refusal (large step)
            return r

        def upd(st, running_state, dt, **kw):
            if st["step"] >= nsteps:
                raise Stop()
            state["step"] = st["step"]
            state["attempt"] = 0
            state["refused"] = 0
            state["dts"] = []
            tent = float(solver.tentative_dt)
            nvals = len(solver.d_psi_sq_vals)
            res = orig_update(st, running_state, dt, **kw)
            d = solver.d_psi_sq_vals[-1] if len(solver.d_psi_sq_vals) > nvals else 0.0
            if adaptive and len(solver.d_psi_sq_vals) - nvals != 1 and len(dmax_bad) < 3:
                dmax_bad.append({"step": int(st["step"]), "values_recorded_in_this_step": len(solver.d_psi_sq_vals) - nvals,
                                 "expected": 1, "screening": screening})
            if len(solver.d_psi_sq_vals) > nvals:
                # Model.Update.dmax: the recorded value is max over sites of | |psi'|^2 - |psi|^2 |
                dm = float(np.max(np.abs(np.abs(np.asarray(res.psi)) ** 2 - np.abs(np.asarray(kw["psi"])) ** 2)))
                amp = float(np.max(np.abs(np.asarray(res.psi))) ** 2) + 1.0
                # both are differences of nearly equal squared moduli: rounding is absolute in the scale of |psi|^2
                if abs(dm - d) > 1e-9 * max(dm, d) + 1e-10 * amp and len(dmax_bad) < 3:
                    dmax_bad.append({"step": int(st["step"]), "recorded": float(d), "recomputed": dm})
            steps.append(dict(step=st["step"], tentative_before=tent, dt_used=float(res.dt), d=float(d),
                              attempts=list(state["dts"]), tentative_after=float(solver.tentative_dt),
                              refusals=state["refused"]))
            return res

        solver.solve_for_psi_squared = sps
        solver.update = upd
        try:
            solver.solve()
        except Stop:
            pass
        except RuntimeError as e:
            raised = str(e)[:80]
            steps.append(dict(step=state["step"], tentative_before=float(solver.tentative_dt), dt_used=None, d=0.0,
                              attempts=list(state["dts"]), refusals=state.get("refused", 0)))
    for b in dmax_bad:
        rep.not_shown("correspondence: the recorded history of max |d|psi|^2| differs from Model.Update (one value per solve step, the dmax of "
                      "the step's input and result)",
                      {**{k: cfg[k] for k in ("adaptive", "window")}, **b})
    if screening and (raised or any(st_["refusals"] for st_ in steps)):
        # a genuine refusal inside a screening iteration is not comparable (see above): keep the steps before it
        first = next((k for k, st_ in enumerate(steps) if st_["refusals"] or st_["dt_used"] is None), len(steps))
        steps, raised = steps[:first], None
        if len(steps) <= window + 1:
            cfg["skip_model"] = True
    return cfg, steps, raised


def oracle(rep, cfg, steps, raised):
    """The documented rule, evaluated directly (independent of the Coq model)."""
    eff_max = cfg["dt_max"] if cfg["adaptive"] else cfg["dt_init"]
    case = {k: cfg[k] for k in ("adaptive", "dt_init", "dt_max", "window", "mult", "max_retries")}
    vals = []
    tent = cfg["dt_init"]
    for st in steps:
        c = {**case, "step": st["step"], "refusals": st["refusals"]}
        if st["dt_used"] is None:
            if cfg["adaptive"] and st["refusals"] <= cfg["max_retries"] + 1:
                rep.violation("the solver raised although the retries were not exhausted", c)
            continue
        if not (0 < st["dt_used"] <= eff_max * (1 + 1e-15)):
            rep.violation(f"time step {st['dt_used']!r} is not in (0, dt_max={eff_max!r}]", c)
        if not cfg["adaptive"]:
            if st["dt_used"] != cfg["dt_init"]:
                rep.violation("adaptivity is off but a step differs from dt_init", c)
            if st["refusals"] > 0:
                rep.violation("adaptivity is off and the update was refused, but the run continued", c)
            continue
        if st["refusals"] > cfg["max_retries"] + 1:
            rep.violation("the retries were exhausted but the run continued instead of raising", c)
        want = st["tentative_before"] * cfg["mult"] ** st["refusals"]
        if abs(st["dt_used"] - want) > 1e-12 * want:
            rep.violation(f"dt used {st['dt_used']!r} is not tentative*mult^refusals = {want!r}", c)
        if abs(st["tentative_before"] - tent) > 1e-12 * tent:
            rep.violation(f"tentative dt {st['tentative_before']!r} differs from the documented proposal {tent!r}", c)
        vals.append(st["d"])
        if st["step"] > cfg["window"]:
            delta = max(1e-10, float(np.mean(vals[-cfg["window"]:])))
            tent = min(0.5 * (st["dt_used"] + cfg["dt_init"] / delta), cfg["dt_max"])
            if "tentative_after" in st and abs(st["tentative_after"] - tent) > 1e-12 * tent:
                rep.violation(f"proposal after the step {st['tentative_after']!r} differs from the documented "
                              f"min(1/2 (dt + dt_init/delta), dt_max) = {tent!r}", {**c, "screening": cfg.get("screening", False)})
            if tent < cfg["dt_max"]:
                rep.coverage["unclipped_proposals"] = rep.coverage.get("unclipped_proposals", 0) + 1
                if cfg.get("screening"):
                    rep.coverage["unclipped_proposals_with_screening"] = rep.coverage.get("unclipped_proposals_with_screening", 0) + 1
                if st["refusals"] > 0:
                    rep.coverage["unclipped_proposals_after_retry"] = rep.coverage.get("unclipped_proposals_after_retry", 0) + 1
        # during the warm-up window the proposal stays
    return


def run(rep: common.Report, tier: str, seed: int, replay=None) -> int:
    rep.use_props(common.check_props("C12"))
    rng = random.Random(seed * 7919 + 12)
    dev = meshes.make_device(rng, holes=0, terminals=2, max_edge_length=1.6)
    nh = 60 if tier == "quick" else 600
    hs = []
    for hid in range(nh):
        cfg, steps, raised = one_history(rep, rng, dev, hid)
        if cfg.get("skip_model"):
            rep.coverage["screening_histories_with_refusals_skipped"] = rep.coverage.get("screening_histories_with_refusals_skipped", 0) + 1
            continue
        oracle(rep, cfg, steps, raised)
        hs.append((cfg, steps, raised))
        rep.count(len(steps))
        rep.nontrivial((cfg["adaptive"], raised is not None, max(s["refusals"] for s in steps) > 0,
                        cfg["window"], cfg["max_retries"]))
        if hid < 4:
            rep.sample({**{k: cfg[k] for k in ("adaptive", "dt_init", "dt_max", "window", "mult", "max_retries")},
                        "steps": len(steps), "refusals": [s["refusals"] for s in steps], "raised": raised})
    # ---- model
    t = HEADER
    calls = []
    for cfg, steps, raised in hs:
        o = (f"(Build_opts OpsF {flit(cfg['dt_init'])} {flit(cfg['dt_max'])} {'true' if cfg['adaptive'] else 'false'} "
             f"{cfg['window']}%nat {flit(cfg['mult'])} {cfg['max_retries']}%nat 0.5 1e-10)")
        items = []
        for st in steps:
            att = st["attempts"]
            r = st["refusals"]
            if st["dt_used"] is None:
                thr = 0.0                                   # every attempt refused
            elif r == 0:
                thr = float("inf")
            else:
                thr = 0.5 * (att[r - 1] + att[r]) if len(att) > r else 0.0
            items.append(f"({flit(thr)}, {flit(st['d'])})")
        calls.append(f"hist {o} (ainit OpsF {o}) 0 {coq_list(items, per_line=3)}")
    t += "Eval vm_compute in\n" + coq_list(calls, per_line=1) + ".\n"
    rc, out = common.run_model("c12_hist", t)
    ndis = 0
    if rc != 0:
        rep.not_shown("correspondence: model evaluation failed", {"log": out[-1500:]})
    else:
        res = common.parse_nested(common.eval_block(out))[0]
        for (cfg, steps, raised), mr in zip(hs, res):
            for st, m in zip(steps, mr):
                case = {**{k: cfg[k] for k in ("adaptive", "window", "mult", "max_retries")}, "step": st["step"],
                        "refusals": st["refusals"]}
                if st["dt_used"] is None:
                    if m[0] != -1:
                        ndis += 1
                        rep.not_shown("correspondence: implementation raised where Model.Adapt.astep continues", case)
                    break
                if m[0] == -1:
                    ndis += 1
                    rep.not_shown("correspondence: Model.Adapt.astep raises where the implementation continued", case)
                    break
                if m[0] != st["dt_used"] or abs(m[1] - st["tentative_after"]) > 1e-12 * abs(st["tentative_after"]):
                    ndis += 1
                    rep.not_shown("correspondence: dt used / next tentative dt differ from Model.Adapt.astep",
                                  {**case, "model": m, "impl": [st["dt_used"], st["tentative_after"]]})
                    break
    rep.coverage.update({"histories": nh, "correspondence_disagreements": ndis})
    if rep.coverage.get("unclipped_proposals_after_retry", 0) < 5:
        rep.not_shown("coverage: fewer than 5 proposals were both unclipped and preceded by a retried step",
                      {"unclipped": rep.coverage.get("unclipped_proposals", 0)})
    rep.assumptions += ["refusals are injected by wrapping solve_for_psi_squared on the instance; genuine refusals (strong drive) "
                        "are exercised in the C02 step-level stream", "np.mean vs left-to-right sum: tolerance 1e-12 on the proposal"]
    return rep.finish(level="proof", trusted_base=common.STD_TRUSTED,
                      rule="one history = settings + refusal script; every step compared; non-trivial = distinct (adaptive, raised, "
                           "had refusals, window, max_retries)")
