"""C04 - observables are invariant under gauge transformations.

(a) operator level: MeshOperators built for A and for the gauge-transformed A' (link exponents
    theta + chi_j - chi_i) with random site functions chi: covariance of gradient / Laplacian and
    invariance of the supercurrent on the implementation (oracle); the implementation's matrices for
    A' vs Model.FV built from gauge_links (correspondence).
(b) run level: pairs of real runs with A and A + c (uniform shift), the second one started from the
    gauge-transformed initial state; every recorded frame compared."""
from __future__ import annotations

import random
import tempfile

import numpy as np

from . import common, meshes, runs
from .common import clit, coq_list
from .c03 import coo_dict, sparse_dict, cmp_dicts

HEADER = """From Coq Require Import PrimFloat List ZArith.
Import ListNotations.
From PyTdgl Require Import Base.Ops Base.Cplx Model.FV.
Open Scope float_scope.
Definition zidx {V} (m : list (nat*nat*V)) := map (fun '(r,c,x) => (Z.of_nat r, Z.of_nat c, x)) m.
Definition cnth (l : list (float*float)) (i : nat) := nth i l (0, 0).
(* U'_k = U_k * g_i * conj g_j  -- the transformation of the theorems (gauge_links) over floats *)
Definition glinks (g : nat -> float*float) (es : list (edge OpsF)) (U : list (float*float)) :=
  map (fun '(e, u) => cmul OpsF u (cmul OpsF (g (e_i _ e)) (cconj OpsF (g (e_j _ e))))) (combine es U).
"""


def operator_case(rep, rng, mesh, mi, with_model):
    from tdgl.finite_volume.operators import MeshOperators
    from tdgl.solver.options import SparseSolver
    em = mesh.edge_mesh
    n, E = len(mesh.sites), len(em.edges)
    # potentials of any strength: O(1), very weak (link phases ~1e-9 ... 1e-12) and strong
    Ascale = [1.0, 1.0, 1e-9, 30.0, 1e-12, 1.0][mi % 6]
    A = np.array([[rng.gauss(0, 1), rng.gauss(0, 1)] for _ in range(E)]) * Ascale
    chi = np.array([rng.uniform(-3, 3) for _ in range(n)])
    dchi = chi[em.edges[:, 1]] - chi[em.edges[:, 0]]
    d = em.directions
    A2 = A + (dchi / np.sum(d * d, axis=1))[:, None] * d          # A2.dir = A.dir + chi_j - chi_i
    b = list(map(int, mesh.boundary_indices))
    fixed = np.array(sorted(rng.sample(b, max(1, len(b) // 4))), dtype=np.int64) if mi % 2 else np.array([], dtype=np.int64)
    # fix_psi=False is what the solver uses for terminal_psi=None (terminal sites unpinned): the psi operators then take the
    # other construction / refresh branch
    fp = (mi % 3 != 2)
    ops1 = MeshOperators(mesh, SparseSolver.SUPERLU, fixed_sites=fixed, fix_psi=fp)
    meshes.build_like_solver(ops1)
    ops1.set_link_exponents(A)
    ops2 = MeshOperators(mesh, SparseSolver.SUPERLU, fixed_sites=fixed, fix_psi=fp)
    meshes.build_like_solver(ops2)
    ops2.set_link_exponents(A2)
    # the gauge transformation applied IN PLACE to the caller's own array, handed over again as the same object
    ops3 = MeshOperators(mesh, SparseSolver.SUPERLU, fixed_sites=fixed, fix_psi=fp)
    meshes.build_like_solver(ops3)
    buf = A.copy()
    ops3.set_link_exponents(buf)
    buf += A2 - A
    ops3.set_link_exponents(buf)
    if abs(ops3.psi_laplacian - ops2.psi_laplacian).max() > 1e-12 * abs(ops2.psi_laplacian).max() or \
            abs(ops3.psi_gradient - ops2.psi_gradient).max() > 1e-12 * abs(ops2.psi_gradient).max():
        rep.violation("operators after a gauge transformation applied in place to the caller's array differ from those built for the "
                      "transformed potential", {"mesh": mi, "sites": n})
    psi = np.array([complex(rng.gauss(0, 1), rng.gauss(0, 1)) for _ in range(n)])
    if Ascale < 1e-6:
        psi = np.ones(n, dtype=complex) * np.exp(0.7j)     # uniform: the supercurrent is then the response to A alone
    g = np.exp(1j * chi)
    psi2 = g * psi
    case = {"mesh": mi, "sites": n, "edges": E, "pinned": int(len(fixed)), "potential_scale": Ascale, "fix_psi": fp}
    if not fp:
        fixed = np.array([], dtype=np.int64)          # nothing is pinned in the psi operators then
    L1, L2 = ops1.psi_laplacian @ psi, ops2.psi_laplacian @ psi2
    pm = float(np.max(np.abs(psi)))
    # rounding floor: the link phases of the transformed potential (|theta| up to max|A.d| + max|dchi|) carry a relative
    # rounding error of a few ulp each, which enters every entry (size up to M) times psi
    ulps = 64 * np.finfo(float).eps * (1.0 + float(np.max(np.abs(dchi))) + float(np.max(np.abs(np.sum(A * d, axis=1)))))
    sc = float(np.max(np.abs(L1))) + 1e9 * ulps * float(abs(ops1.psi_laplacian).max()) * pm + 1e-300
    if np.max(np.abs(L2 - g * L1)) > 1e-9 * sc:
        rep.violation("covariant Laplacian does not transform covariantly", case)
    G1, G2 = ops1.psi_gradient @ psi, ops2.psi_gradient @ psi2
    if np.max(np.abs(G2 - g[em.edges[:, 0]] * G1)) > 1e-9 * (float(np.max(np.abs(G1))) + 1e9 * ulps * float(abs(ops1.psi_gradient).max()) * pm + 1e-300):
        rep.violation("covariant gradient does not transform covariantly", case)
    J1, J2 = ops1.get_supercurrent(psi), ops2.get_supercurrent(psi2)
    # rounding: J is the imaginary part of a difference of O(|psi|^2) numbers divided by the edge length
    jtol = 1e-9 * float(np.max(np.abs(J1))) + 1e-13 * float(np.max(np.abs(psi)) ** 2 / np.min(em.edge_lengths))
    if np.max(np.abs(J1 - J2)) > jtol:
        rep.violation("supercurrent changed under a gauge transformation", {**case, "max_abs_diff": float(np.max(np.abs(J1 - J2)))})
    if Ascale < 1e-6:
        # uniform psi: J on every edge is -|psi|^2 * (A . e_ij) / |e_ij| to first order, whatever the gauge
        lin = -np.einsum("ij,ij->i", A, d) / em.edge_lengths
        for nm_, Jx in (("original gauge", J1), ("transformed gauge", J2)):
            if np.max(np.abs(Jx - lin)) > 1e-6 * float(np.max(np.abs(lin))) + 1e-13 / float(np.min(em.edge_lengths)):
                rep.violation(f"very weak potential: the supercurrent response in the {nm_} is not -|psi|^2 A.e/|e| "
                              f"(max |J| = {float(np.max(np.abs(Jx))):.3e}, expected {float(np.max(np.abs(lin))):.3e})", case)
    rep.count(1)
    rep.nontrivial(("op", n, len(fixed) > 0))
    if not with_model:
        return None
    U = np.exp(-1j * np.einsum("ij, ij -> i", A, d))
    t = HEADER + meshes.mesh_literal(mesh)
    t += f"Definition U := {coq_list([clit(u) for u in U], per_line=2)}.\n"
    t += f"Definition g := {coq_list([clit(u) for u in g], per_line=2)}.\n"
    t += f"Definition fixed : list nat := {coq_list([str(int(f)) + '%nat' for f in fixed], per_line=12)}.\n"
    t += "Eval vm_compute in zidx (clap_coo OpsF a fixed es (glinks (cnth g) es U)).\n"
    t += "Eval vm_compute in zidx (cgrad_coo OpsF 0 es (glinks (cnth g) es U)).\n"
    return t, ops2, case


def shifted_field(B, cx, cy, field_units="mT", length_units="um"):
    import tdgl
    return tdgl.Parameter(_shifted, Bz=float(B), cx=float(cx), cy=float(cy), field_units=field_units,
                          length_units=length_units)


def _shifted(x, y, z, *, Bz, cx, cy, field_units="mT", length_units="um"):
    from tdgl.sources.constant import constant_field_vector_potential
    A = constant_field_vector_potential(x, y, z, Bz=Bz, field_units=field_units, length_units=length_units)
    A = np.atleast_2d(A).copy()
    A[:, 0] += cx
    A[:, 1] += cy
    return A


def shifted_ramp(b0, b1, tau, cx, cy, field_units="mT", length_units="um"):
    import tdgl
    return tdgl.Parameter(_shifted_ramp, time_dependent=True, b0=float(b0), b1=float(b1), tau=float(tau),
                          cx=float(cx), cy=float(cy), field_units=field_units, length_units=length_units)


def _shifted_ramp(x, y, z, *, t, b0, b1, tau, cx, cy, field_units="mT", length_units="um"):
    Bz = b0 + (b1 - b0) * min(max(t / tau, 0.0), 1.0)
    return _shifted(x, y, z, Bz=Bz, cx=cx, cy=cy, field_units=field_units, length_units=length_units)


def make_seed(dev, td, psi0):
    """A Solution object carrying a chosen initial state (obtained from a one-step run)."""
    opts = runs.make_options(td, solve_time=1e-4, dt_init=1e-4, dt_max=1e-4, adaptive=False, save_every=1000,
                             output_file=td + "/seed.h5")
    import tdgl
    sol = tdgl.solve(dev, opts)
    d = sol.tdgl_data
    d.psi = np.array(psi0, dtype=np.complex128)
    d.mu = np.zeros(len(psi0))
    d.supercurrent = np.zeros_like(d.supercurrent)
    d.normal_current = np.zeros_like(d.normal_current)
    d.induced_vector_potential = np.zeros_like(d.induced_vector_potential)
    return sol


def run_pair(rep, rng, ci, cfg):
    import h5py
    dev = meshes.make_device(rng, holes=cfg["holes"], terminals=cfg["terminals"], max_edge_length=0.9,
                             **({"london_lambda": cfg["lam"]} if "lam" in cfg else {}))
    n = len(dev.mesh.sites)
    cx, cy = cfg["shift"]
    cur = None
    if cfg["terminals"] >= 2 and cfg["bias"]:
        names = [t.name for t in dev.terminals]
        cur = {names[0]: cfg["bias"], names[1]: -cfg["bias"]}
    frames, iters, failed = {}, {}, {}
    with tempfile.TemporaryDirectory(prefix="pyt_c04_") as td:
        psi0 = np.ones(n, dtype=complex)
        if cfg["terminals"]:
            ts = np.unique(np.concatenate([np.asarray(t.site_indices, dtype=int) for t in dev.terminal_info()]))
            psi0[ts] = 0.0
        psi0 = psi0 * np.exp(1j * np.array([rng.uniform(-0.3, 0.3) for _ in range(n)])) * \
            np.array([rng.uniform(0.6, 1.0) for _ in range(n)])
        if cfg["terminals"]:
            psi0[ts] = 0.0
        seed1 = make_seed(dev, td, psi0)
        scr = dict(include_screening=True, screening_tolerance=cfg.get("scr_tol", 1e-3)) if cfg.get("screening") else {}
        scr = {**scr, "terminal_psi": cfg.get("terminal_psi", 0.0)}
        opts = runs.make_options(None, solve_time=cfg["solve_time"], dt_init=1e-3, dt_max=2e-2, adaptive=cfg["adaptive"],
                                 save_every=10, **scr)
        # dimensionless shift: link exponents are A_scale * A . (dimensionless direction)
        from tdgl.solver.solver import TDGLSolver
        s_probe = TDGLSolver(dev, opts, applied_vector_potential=shifted_field(cfg["B"], 0, 0))
        A_scale = s_probe.A_scale
        if cfg.get("shift_dimensionless"):
            cx, cy = cx / A_scale, cy / A_scale
        chi = (A_scale * cx) * dev.mesh.sites[:, 0] + (A_scale * cy) * dev.mesh.sites[:, 1]
        g = np.exp(1j * chi)
        seed2 = make_seed(dev, td, psi0 * g)
        if cfg.get("ramp"):
            b0, b1, tau = cfg["ramp"]
            fields = (shifted_ramp(b0, b1, tau, 0, 0), shifted_ramp(b0, b1, tau, cx, cy))
        else:
            fields = (shifted_field(cfg["B"], 0, 0), shifted_field(cfg["B"], cx, cy))
        for tag, A, seed in (("a", fields[0], seed1), ("b", fields[1], seed2)):
            o = runs.make_options(td, solve_time=cfg["solve_time"], dt_init=1e-3, dt_max=2e-2, adaptive=cfg["adaptive"],
                                  save_every=10, output_file=f"{td}/run_{tag}.h5", **scr)
            try:
                sol, solver_ = runs.traced_solve(dev, o, A=A, currents=cur, seed_solution=seed)
            except RuntimeError as e:
                if "Screening calculation failed to converge" not in str(e):
                    raise
                failed[tag] = str(e)[:120]                    # an allowed outcome, provided both gauges agree on it
                continue
            runs.report_threading(rep, solver_, {"pair": ci, "run": tag})
            iters[tag] = None if not cfg.get("screening") else np.array(sol.dynamics.screening_iterations)
            with h5py.File(sol.path, "r") as f:
                fr = []
                for k in sorted(f["data"], key=int):
                    grp = f["data"][k]
                    fr.append({key: np.array(grp[key]) for key in ("psi", "mu", "supercurrent", "normal_current")})
                frames[tag] = fr
    if failed:
        case = {"pair": ci, **{k: str(v) for k, v in cfg.items()}, "sites": n, "failed": failed}
        if len(failed) == 1:
            rep.violation("screening converges in one gauge and fails to converge in the uniformly shifted gauge", case)
        else:
            rep.coverage["screening_pairs_not_converged_in_both_gauges"] = rep.coverage.get("screening_pairs_not_converged_in_both_gauges", 0) + 1
            if cfg.get("scr_tol", 1e-3) < 1e-2:
                return run_pair(rep, rng, ci, {**cfg, "scr_tol": 1e-2})      # same physics, looser self-consistency
        rep.count(1)
        return
    case = {"pair": ci, **{k: str(v) for k, v in cfg.items()}, "sites": n, "frames": len(frames["a"])}
    if len(frames["a"]) != len(frames["b"]):
        rep.violation("runs related by a gauge shift recorded different numbers of frames", case)
    else:
        tol = 1e-8 if not cfg.get("screening") else 1e-6
        if cfg.get("screening"):
            rep.coverage["screening_pair_max_iterations"] = int(max(np.max(iters["a"]), np.max(iters["b"])))
        if cfg.get("screening") and not np.array_equal(iters["a"], iters["b"]):
            # the screening iteration and its convergence test are functions of gauge-invariant quantities only
            k = next((i for i, (x, y) in enumerate(zip(iters["a"], iters["b"])) if x != y), min(len(iters["a"]), len(iters["b"])))
            rep.violation("the number of screening iterations per step differs between a run and its uniformly gauge-shifted twin",
                          {**case, "first_step": int(k), "steps": [len(iters["a"]), len(iters["b"])]})
        for k, (fa, fb) in enumerate(zip(frames["a"], frames["b"])):
            what = None
            if np.max(np.abs(np.abs(fa["psi"]) - np.abs(fb["psi"]))) > tol:
                what = "|psi|"
            elif np.max(np.abs(fa["supercurrent"] - fb["supercurrent"])) > tol * (1 + np.max(np.abs(fa["supercurrent"]))):
                what = "supercurrent"
            elif np.max(np.abs(fa["normal_current"] - fb["normal_current"])) > tol * (1 + np.max(np.abs(fa["normal_current"]))):
                what = "normal current"
            elif np.max(np.abs((fa["mu"] - fa["mu"].mean()) - (fb["mu"] - fb["mu"].mean()))) > tol * (1 + np.max(np.abs(fa["mu"]))):
                what = "potential differences"
            else:
                ratio = fb["psi"] * np.conj(g * fa["psi"])
                big = np.abs(fa["psi"]) > 1e-3
                if big.any():
                    ph = ratio[big] / np.abs(ratio[big])
                    if np.max(np.abs(ph - ph[0])) > 1e-6:
                        what = "psi (not the gauge phase times a global phase)"
            if what:
                rep.violation(f"{what} differs between a run and its uniformly gauge-shifted twin", {**case, "frame": k})
                break
    rep.count(len(frames["a"]))
    rep.nontrivial(("pair", cfg["terminals"], bool(cfg["bias"]), cfg["adaptive"], cfg["holes"]))
    rep.sample(case)


def run(rep: common.Report, tier: str, seed: int, replay=None) -> int:
    rep.use_props(common.check_props("C04"))
    rng = random.Random(seed * 7919 + 4)
    texts, info = [], []
    nsmall, nbig = (6, 6) if tier == "quick" else (20, 30)
    for mi in range(nsmall + nbig):
        small = mi < nsmall
        mesh = meshes.delaunay_mesh(rng, rng.choice([20, 40]) if small else rng.choice([120, 250]),
                                    rng.choice(["random", "jitter"]), smooth=rng.choice([0, 2]))
        r = operator_case(rep, rng, mesh, mi, with_model=small)
        if r:
            texts.append(r[0]); info.append(r[1:])
    outs = common.run_model_shards("c04_case", texts, jobs=8)
    ndis = 0
    for (rc, out), (ops2, case) in zip(outs, info):
        if rc != 0:
            rep.not_shown("correspondence: model evaluation failed", {**case, "log": out[-1200:]})
            continue
        lap = common.parse_nested(common.eval_block(out, 0))[0]
        grad = common.parse_nested(common.eval_block(out, 1))[0]
        bad = cmp_dicts(coo_dict(lap), sparse_dict(ops2.psi_laplacian), tol=1e-9)
        bad2 = cmp_dicts(coo_dict(grad), sparse_dict(ops2.psi_gradient), tol=1e-9)
        if bad or bad2:
            ndis += 1
            rep.not_shown("correspondence: operators for the gauge-transformed potential differ from the model's gauge_links",
                          {**case, "first": (bad or bad2)[:3]})
    pairs = [
        dict(B=0.4, shift=(0.8, -0.5), terminals=0, holes=1, bias=0.0, adaptive=True, solve_time=0.6),
        dict(B=0.3, shift=(-1.0, 0.3), terminals=2, holes=0, bias=2.0, adaptive=True, solve_time=0.6),
        dict(B=0.0, shift=(0.5, 0.5), terminals=2, holes=1, bias=1.0, adaptive=False, solve_time=0.2),
        # screening on: the self-consistency loop and its convergence test must not see the gauge
        dict(B=0.6, shift=(2.0, -1.5), shift_dimensionless=True, terminals=2, holes=0, bias=1.0, adaptive=True, solve_time=0.08,
             screening=True, lam=0.3),
        # time-dependent field with a LARGE uniform shift (150, 120 in units of Bc2*xi): whether the operators are
        # refreshed must not depend on the gauge
        dict(B=0.0, ramp=(0.0, 3.0, 15.0), shift=(150.0, 120.0), shift_dimensionless=True, terminals=2, holes=0,
             bias=1.0, adaptive=False, solve_time=0.4),
    ]
    # feature pairs: unpinned contacts (terminal_psi=None) together with a time-dependent field / with screening
    pairs.append(dict(B=0.0, ramp=(0.0, 2.0, 10.0), shift=(0.9, -0.6), terminals=2, holes=0, bias=1.0, adaptive=False,
                      solve_time=0.25, terminal_psi=None))
    if tier == "thorough":
        pairs.append(dict(B=0.5, shift=(1.5, 1.0), shift_dimensionless=True, terminals=2, holes=0, bias=1.0, adaptive=True,
                          solve_time=0.06, screening=True, lam=0.3, terminal_psi=None))
        pairs = pairs * 4
    for ci, cfg in enumerate(pairs):
        run_pair(rep, rng, ci, cfg)
    rep.coverage.update({"operator_cases": nsmall + nbig, "run_pairs": len(pairs), "correspondence_disagreements": ndis})
    rep.assumptions += ["run-level pairs start from gauge-related initial states (seed solutions): psi_init = 1 is not gauge "
                        "covariant, so two cold starts with A and A+c are different physical initial conditions",
                        "g = exp(i chi) computed by numpy and passed to the model as data"]
    return rep.finish(level="proof", trusted_base=common.STD_TRUSTED,
                      rule="operator cases = (mesh, random A, random site function chi, pinned set); run pairs = (device, field, "
                           "uniform shift, bias); non-trivial = distinct (sites, pinned?) / (terminals, bias, adaptive, holes)")
