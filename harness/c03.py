"""C03 - finite-volume operators obey the discrete calculus identities.

Correspondence: the four build_* functions of tdgl.finite_volume.operators on generated meshes
vs Model.FV's COO builders evaluated over PrimFloat (every stored entry, plus matrix-vector
products through the model's duplicate-summing semantics).
Oracle: the identities themselves evaluated on the implementation's matrices."""
from __future__ import annotations

import random

import numpy as np
import scipy.sparse as sp

from . import common, meshes
from .common import flit, clit, coq_list

HEADER = """From Coq Require Import PrimFloat List ZArith.
Import ListNotations.
From PyTdgl Require Import Base.Ops Base.Cplx Model.FV.
Open Scope float_scope.
Definition zidx {V} (m : list (nat*nat*V)) := map (fun '(r,c,x) => (Z.of_nat r, Z.of_nat c, x)) m.
"""


def coo_dict(triples):
    d = {}
    for t in triples:
        r, c, v = t
        if isinstance(v, list):
            v = complex(v[0], v[1])
        d[(int(r), int(c))] = d.get((int(r), int(c)), 0) + v
    return d


def sparse_dict(M):
    M = sp.coo_array(M)
    d = {}
    for r, c, v in zip(M.row, M.col, M.data):
        d[(int(r), int(c))] = d.get((int(r), int(c)), 0) + v
    return d


def cmp_dicts(dm, di, tol=1e-11):
    """Compare entry dictionaries; returns list of differences."""
    bad = []
    scale = max([abs(v) for v in di.values()] + [1e-300])
    for k in set(dm) | set(di):
        a, b = dm.get(k, 0), di.get(k, 0)
        if abs(a - b) > tol * max(abs(a), abs(b)) + 1e-14 * scale:
            bad.append((k, str(a), str(b)))
            if len(bad) > 5:
                break
    return bad


def build_case(rng, mesh, with_fixed):
    from tdgl.finite_volume import operators as ops
    em = mesh.edge_mesh
    E = len(em.edges)
    A = np.array([[rng.gauss(0, 1), rng.gauss(0, 1)] for _ in range(E)])
    if rng.random() < 0.2:
        A[:] = 0.0
    U = np.exp(-1j * np.einsum("ij, ij -> i", A, em.directions))
    fixed = np.array([], dtype=np.int64)
    if with_fixed:
        b = mesh.boundary_indices
        k = rng.randint(1, max(1, len(b) // 3))
        fixed = np.array(sorted(rng.sample(list(map(int, b)), k)), dtype=np.int64)
    impl = dict(
        div=ops.build_divergence(mesh),
        grad=ops.build_gradient(mesh),
        lap=ops.build_laplacian(mesh)[0],
        bflux=ops.build_neumann_boundary_laplacian(mesh),
        cgrad=ops.build_gradient(mesh, link_exponents=A),
        clap=ops.build_laplacian(mesh, link_exponents=A, fixed_sites=fixed)[0],
    )
    return A, U, fixed, impl


def sample_rows(n, k=12):
    return sorted(set([0, n - 1] + [(i * 7919 + 13) % n for i in range(k)]))


def model_text(mesh, U, fixed, v, w):
    n = len(mesh.sites)
    E = len(mesh.edge_mesh.edges)
    t = HEADER + meshes.mesh_literal(mesh)
    t += f"Definition U : list (float*float) :=\n{coq_list([clit(u) for u in U], per_line=2)}.\n"
    t += f"Definition fixed : list nat := {coq_list([str(int(f)) + '%nat' for f in fixed], per_line=12)}.\n"
    t += f"Definition v1 : list float := {coq_list([flit(x) for x in v])}.\n"
    t += f"Definition w1 : list float := {coq_list([flit(x) for x in w])}.\n"
    t += "Definition vf (i : nat) := nth i v1 0.\nDefinition wf (i : nat) := nth i w1 0.\n"
    t += "Eval vm_compute in zidx (div_coo OpsF a 0 es).\n"
    t += "Eval vm_compute in zidx (grad_coo OpsF 0 es).\n"
    t += "Eval vm_compute in zidx (lap_coo OpsF a es).\n"
    t += "Eval vm_compute in zidx (bflux_coo OpsF a 0 es).\n"
    t += "Eval vm_compute in zidx (cgrad_coo OpsF 0 es U).\n"
    t += "Eval vm_compute in zidx (clap_coo OpsF a fixed es U).\n"
    rows = coq_list([f"{r}%nat" for r in sample_rows(n)], per_line=16)
    erows = coq_list([f"{r}%nat" for r in sample_rows(E)], per_line=16)
    t += f"Eval vm_compute in map (apply_coo OpsF (lap_coo OpsF a es) vf) {rows}.\n"
    t += f"Eval vm_compute in map (apply_coo OpsF (div_coo OpsF a 0 es) wf) {rows}.\n"
    t += f"Eval vm_compute in map (apply_coo OpsF (grad_coo OpsF 0 es) vf) {erows}.\n"
    return t


def oracle(rep, mesh, impl, A, U, rng, mi):
    """The identities of the property on the implementation's own matrices."""
    n = len(mesh.sites)
    em = mesh.edge_mesh
    E = len(em.edges)
    a = mesh.areas
    g = np.array([rng.gauss(0, 1) for _ in range(n)])
    F = np.array([rng.gauss(0, 1) for _ in range(E)])
    fb = np.array([rng.gauss(0, 1) for _ in range(len(em.boundary_edge_indices))])
    D, G, L, B = impl["div"], impl["grad"], impl["lap"], impl["bflux"]
    case = {"mesh": mi, "sites": n, "edges": E}

    def rel(x, scale):
        return float(np.max(np.abs(x)) / (scale + 1e-300))

    absL = abs(L)
    r1 = rel(L @ g - D @ (G @ g), float(np.max(absL @ np.abs(g))))
    if r1 > 1e-10:
        rep.violation(f"Laplacian != divergence of gradient (rel {r1:.2e})", case)
    s2 = float(np.sum(a * (D @ F)))
    if abs(s2) > 1e-10 * float(np.sum(a * (abs(D) @ np.abs(F)))):
        rep.violation(f"area-weighted sum of divergence is {s2:.3e}, not 0", case)
    s3 = float(np.sum(a * (B @ fb)))
    t3 = float(np.sum(em.edge_lengths[em.boundary_edge_indices] * fb))
    if abs(s3 - t3) > 1e-10 * float(np.sum(em.edge_lengths[em.boundary_edge_indices] * np.abs(fb))):
        rep.violation(f"boundary flux integral {s3!r} != sum len*flux {t3!r}", case)
    S = (sp.diags(a) @ L).toarray()
    if np.max(np.abs(S - S.T)) > 1e-10 * np.max(np.abs(S)):
        rep.violation("area-weighted scalar Laplacian not symmetric", case)
    ev = np.linalg.eigvalsh((S + S.T) / 2)
    if ev[-1] > 1e-9 * abs(ev[0]):
        rep.violation(f"area-weighted scalar Laplacian not negative semi-definite (max eig {ev[-1]:.3e})", case)
    if np.max(np.abs(L @ np.ones(n))) > 1e-9 * np.max(np.abs(L.toarray()).sum(axis=1)):
        rep.violation("scalar Laplacian does not annihilate constants", case)
    # kernel = constants iff the positive-weight graph is connected
    w = em.dual_edge_lengths / em.edge_lengths
    pos = w > 1e-12 * np.max(w)
    adj = sp.coo_array((np.ones(pos.sum()), (em.edges[pos, 0], em.edges[pos, 1])), shape=(n, n))
    ncomp = sp.csgraph.connected_components(adj, directed=False)[0]
    nzero = int(np.sum(np.abs(ev) < 1e-9 * abs(ev[0])))
    if nzero != ncomp:
        rep.violation(f"kernel dimension {nzero} != number of connected components {ncomp}", case)
    # Hermitian covariant Laplacian (no fixed rows)
    from tdgl.finite_volume import operators as ops
    LU = ops.build_laplacian(mesh, link_exponents=A)[0]
    H = (sp.diags(a) @ LU).toarray()
    if np.max(np.abs(H - H.conj().T)) > 1e-10 * np.max(np.abs(H)):
        rep.violation("area-weighted covariant Laplacian not Hermitian", case)
    # gradient exact on linear functions
    al = np.array([rng.gauss(0, 1), rng.gauss(0, 1)])
    be = rng.gauss(0, 1)
    lin = mesh.sites @ al + be
    dS = mesh.sites[em.edges[:, 1]] - mesh.sites[em.edges[:, 0]]          # from the site pairs, not from the stored edge geometry
    exact = (dS @ al) / np.linalg.norm(dS, axis=1)
    if np.max(np.abs(G @ lin - exact)) > 1e-9 * (np.max(np.abs(exact)) + 1e-300) + 1e-9:
        rep.violation("gradient not exact on a linear function", case)
    rep.nontrivial(("mesh", n, E, ncomp))


def custom_weights(rep, rng, mesh, A, mi, wtexts, wcases):
    """build_laplacian / build_gradient with user-supplied edge weights (the `weights=` argument)."""
    from tdgl.finite_volume import operators as ops
    import copy
    em = mesh.edge_mesh
    E, n = len(em.edges), len(mesh.sites)
    w = np.array([rng.uniform(0.2, 3.0) for _ in range(E)])
    Lw = ops.build_laplacian(mesh, weights=w)[0]
    LUw = ops.build_laplacian(mesh, link_exponents=A, weights=w)[0]
    case = {"mesh": mi, "sites": n, "edges": E, "variant": "custom weights"}
    a = mesh.areas
    S = (sp.diags(a) @ Lw).toarray()
    if np.max(np.abs(Lw @ np.ones(n))) > 1e-9 * np.max(np.abs(Lw.toarray()).sum(axis=1)):
        rep.violation("scalar Laplacian with custom positive weights does not annihilate constants", case)
    if np.max(np.abs(S - S.T)) > 1e-10 * np.max(np.abs(S)):
        rep.violation("area-weighted scalar Laplacian with custom weights not symmetric", case)
    ev = np.linalg.eigvalsh((S + S.T) / 2)
    if ev[-1] > 1e-9 * abs(ev[0]):
        rep.violation(f"Laplacian with custom positive weights not negative semi-definite (max eig {ev[-1]:.3e})", case)
    H = (sp.diags(a) @ LUw).toarray()
    if np.max(np.abs(H - H.conj().T)) > 1e-10 * np.max(np.abs(H)):
        rep.violation("covariant Laplacian with custom weights not Hermitian", case)
    # positive weights of any number type: integers (and an integer-valued float array) give the same operators
    wi = np.array([rng.randint(1, 5) for _ in range(E)])
    for wvar, nm_ in ((wi, "int64 weights"), (wi.astype(np.int32), "int32 weights"), (np.ones(E, dtype=int), "unit integer weights")):
        Li = ops.build_laplacian(mesh, weights=wvar)[0]
        Lf = ops.build_laplacian(mesh, weights=wvar.astype(float))[0]
        Gi = ops.build_gradient(mesh, weights=wvar)
        Gf = ops.build_gradient(mesh, weights=wvar.astype(float))
        LUi = ops.build_laplacian(mesh, link_exponents=A, weights=wvar)[0]
        LUf = ops.build_laplacian(mesh, link_exponents=A, weights=wvar.astype(float))[0]
        if abs(Li - Lf).max() > 0 or abs(Gi - Gf).max() > 0 or abs(LUi - LUf).max() > 0:
            rep.violation("operators built with integer-typed weights differ from those built with the same weights as floats",
                          {**case, "variant": nm_, "laplacian_diff": float(abs(Li - Lf).max()), "gradient_diff": float(abs(Gi - Gf).max())})
    # model: an edge with dual length w*len has lap_w = w
    m2 = copy.copy(mesh)
    m2.edge_mesh = copy.copy(em)
    m2.edge_mesh.dual_edge_lengths = w * em.edge_lengths
    U = np.exp(-1j * np.einsum("ij, ij -> i", A, em.directions))
    t = HEADER + meshes.mesh_literal(m2)
    t += f"Definition U : list (float*float) :=\n{coq_list([clit(u) for u in U], per_line=2)}.\n"
    t += "Eval vm_compute in zidx (lap_coo OpsF a es).\n"
    t += "Eval vm_compute in zidx (clap_coo OpsF a [] es U).\n"
    wtexts.append(t)
    wcases.append((mi, {"lap_w": Lw, "clap_w": LUw}))
    rep.count(1)


def refreshed_operators(rep, rng, mesh, mi):
    """The operators actually in use (MeshOperators after in-place refreshes) must satisfy the identities too."""
    from tdgl.finite_volume.operators import MeshOperators
    from tdgl.solver.options import SparseSolver
    em = mesh.edge_mesh
    E = len(em.edges)
    # the scalar operators as MeshOperators holds them for every sparse-solver option (the option only selects the storage format
    # and the factorisation; the matrices must be the ones the builders return)
    from tdgl.finite_volume import operators as _ops
    ref_L = _ops.build_laplacian(mesh)[0]
    for solver_ in SparseSolver:
        try:
            mo_ = MeshOperators(mesh, solver_, fixed_sites=np.array([], dtype=np.int64), fix_psi=True)
            try:
                mo_.build_operators()
            except Exception:  # noqa: BLE001  (missing optional library, or the exactly singular Neumann factorisation)
                pass
            if getattr(mo_, "mu_laplacian", None) is None:
                continue
            # (the potential is defined up to a constant: one row of the system matrix may be a gauge-fixing identity row - every
            # other row must be the row of the mesh Laplacian)
            Ms, Lr = sp.csr_matrix(mo_.mu_laplacian), sp.csr_matrix(ref_L)
            ident = [r_ for r_ in range(Ms.shape[0]) if Ms[[r_]].nnz == 1 and Ms[r_, r_] == 1.0]
            keep = np.setdiff1d(np.arange(Ms.shape[0]), ident[:1])
            dL = abs(Ms[keep] - Lr[keep])
            if dL.max() > 1e-12 * abs(ref_L).max():
                rep.violation(f"the scalar Laplacian held by MeshOperators for sparse_solver={solver_.value!r} is not the Laplacian of the mesh "
                              "(divergence of the gradient)", {"mesh": mi, "max_abs_diff": float(dL.max())})
        except Exception as e:  # noqa: BLE001
            rep.coverage.setdefault("sparse_solver_options_not_constructed", []).append(f"{solver_.value}: {type(e).__name__}")
    for fp in (False, True):
        # no pinned sites; fix_psi only selects the construction / refresh branch (every edge, the last one included, is refreshed)
        mo = MeshOperators(mesh, SparseSolver.SUPERLU, fixed_sites=np.array([], dtype=np.int64), fix_psi=fp)
        meshes.build_like_solver(mo)       # the solver's life cycle: every operator built before the link variables are set / refreshed
        for k in range(3):
            mo.set_link_exponents(np.array([[rng.gauss(0, 1), rng.gauss(0, 1)] for _ in range(E)]))
        H = (sp.diags(mesh.areas) @ mo.psi_laplacian).toarray()
        if np.max(np.abs(H - H.conj().T)) > 1e-10 * np.max(np.abs(H)):
            rep.violation("covariant Laplacian in use after in-place refreshes is not Hermitian", {"mesh": mi, "refreshes": 2, "fix_psi": fp})
        mo.set_link_exponents(np.zeros((E, 2)))
        one = np.ones(len(mesh.sites))
        if np.max(np.abs(mo.psi_laplacian @ one)) > 1e-9 * np.max(np.abs(mo.psi_laplacian.toarray()).sum(axis=1)):
            rep.violation("covariant Laplacian refreshed back to A = 0 does not annihilate constants", {"mesh": mi, "fix_psi": fp})
        rep.count(1)


def run(rep: common.Report, tier: str, seed: int, replay=None) -> int:
    rep.use_props(common.check_props("C03"))
    rng = random.Random(seed * 7919 + 3)
    specs = []
    sizes = [12, 30, 60, 120] if tier == "quick" else [12, 30, 60, 120, 250, 400, 400, 250]
    for i, n in enumerate(sizes):
        for kind in ("random", "jitter", "grid"):
            specs.append(("delaunay", n, kind, 2 if (i % 2) else 0, [1.0, 1.0, 1e-5, 2e3][(i + len(specs)) % 4]))
    # structured right-triangle grids (every interior cell has co-circular neighbours: coincident circumcentres) and the smallest
    # triangulations there are (one triangle, two triangles)
    for nx_, ny_, sc_ in ((3, 3, 1.0), (5, 4, 1.0), (8, 8, 1e-5), (6, 9, 2e3)) if tier == "quick" else \
            ((3, 3, 1.0), (5, 4, 1.0), (8, 8, 1e-5), (6, 9, 2e3), (15, 12, 1.0), (20, 20, 0.37)):
        specs.append(("structured", nx_, ny_, 0, sc_))
    specs.append(("structured", 1, 1, 0, 1.0))          # one triangle
    specs.append(("structured", 2, 2, 0, 0.3))          # one square = two triangles
    ndev = 3 if tier == "quick" else 10
    for k in range(ndev):
        specs.append(("device", k % 3, rng.choice([2, 3, 4]), rng.choice([0, 2])))
    texts, cases = [], []
    wtexts, wcases = [], []
    for mi, spec in enumerate(specs):
        if spec[0] == "delaunay":
            mesh = meshes.delaunay_mesh(rng, spec[1], spec[2], smooth=spec[3], scale=spec[4])
        elif spec[0] == "structured":
            from tdgl.finite_volume.mesh import Mesh as _Mesh
            nx_, ny_, sc_ = spec[1], spec[2], spec[4]
            if nx_ == 1:
                pts_, els_ = np.array([[0.0, 0.0], [1.0, 0.1], [0.3, 0.8]]) * sc_, np.array([[0, 1, 2]])
            else:
                pts_ = np.array([[i_ * 0.5, j_ * 0.5] for j_ in range(ny_) for i_ in range(nx_)]) * sc_
                els_ = np.array([t_ for j_ in range(ny_ - 1) for i_ in range(nx_ - 1)
                                 for t_ in ([j_ * nx_ + i_, j_ * nx_ + i_ + 1, (j_ + 1) * nx_ + i_ + 1],
                                            [j_ * nx_ + i_, (j_ + 1) * nx_ + i_ + 1, (j_ + 1) * nx_ + i_])])
            try:
                mesh = _Mesh.from_triangulation(pts_, els_)
            except Exception as e:  # noqa: BLE001
                rep.violation(f"Mesh.from_triangulation refused a valid structured triangulation ({nx_} x {ny_} points, positively "
                              f"oriented right triangles): {type(e).__name__}: {e}"[:300], {"mesh": mi, "nx": nx_, "ny": ny_, "scale": sc_})
                continue
            want_area_ = 0.5 * abs(float((pts_[1] - pts_[0])[0] * (pts_[2] - pts_[0])[1] - (pts_[1] - pts_[0])[1] * (pts_[2] - pts_[0])[0])) if nx_ == 1 else (nx_ - 1) * (ny_ - 1) * 0.25 * sc_ ** 2
            if abs(float(np.sum(mesh.areas)) - want_area_) > 1e-9 * want_area_:
                rep.violation("cell areas of a structured triangulation do not add up to the triangulated area",
                              {"mesh": mi, "nx": nx_, "ny": ny_, "sum": float(np.sum(mesh.areas)), "expected": want_area_})
        else:
            dev = meshes.make_device(rng, holes=spec[1], terminals=spec[2], smooth=spec[3],
                                     max_edge_length=rng.choice([0.5, 0.8]),
                                     shape=rng.choice(["box", "ellipse", "union"]))
            mesh = dev.mesh
        if mi % 3 == 2:
            # history form: the mesh has been used before - smoothed copies were derived from it (twice); it must itself be
            # untouched, and every identity is then checked on this used mesh
            snap = np.array(mesh.sites, copy=True)
            try:
                mesh.smooth(2).smooth(1)
                mesh.smooth(1)
            except Exception:  # noqa: BLE001  (smoothing may legitimately produce a malformed mesh and refuse)
                pass
            if not np.array_equal(snap, mesh.sites):
                rep.violation("Mesh.smooth() moved the sites of the mesh it was called on (it returns a new mesh)",
                              {"mesh": mi, "max_shift": float(np.max(np.abs(snap - mesh.sites)))})
        if mi % 4 == 1:
            # the mesh as a user often has it: read back from a file (stored arrays); the operators are built on the restored mesh
            import h5py
            import tempfile
            from tdgl.finite_volume.mesh import Mesh
            with tempfile.TemporaryDirectory(prefix="pyt_c03_") as td_:
                with h5py.File(td_ + "/mesh.h5", "w") as f_:
                    mesh.to_hdf5(f_.create_group("mesh"), compress=False)
                with h5py.File(td_ + "/mesh.h5", "r") as f_:
                    mesh = Mesh.from_hdf5(f_["mesh"])
        with_fixed = (mi % 2 == 1)
        A, U, fixed, impl = build_case(rng, mesh, with_fixed)
        oracle(rep, mesh, impl, A, U, rng, mi)
        n, E = len(mesh.sites), len(mesh.edge_mesh.edges)
        v = np.array([rng.gauss(0, 1) for _ in range(n)])
        w = np.array([rng.gauss(0, 1) for _ in range(E)])
        texts.append(model_text(mesh, U, fixed, v, w))
        cases.append((spec, mesh, impl, v, w, fixed))
        custom_weights(rep, rng, mesh, A, mi, wtexts, wcases)
        refreshed_operators(rep, rng, mesh, mi)
        rep.count(1)
        rep.sample({"mesh": list(map(str, spec)), "sites": n, "edges": E, "fixed_sites": len(fixed)})
    outs = common.run_model_shards("c03_case", texts, jobs=8)
    ndis = 0
    wouts = common.run_model_shards("c03_wcase", wtexts, jobs=8)
    for (rc, out), (mi, implw) in zip(wouts, wcases):
        if rc != 0:
            rep.not_shown("correspondence: model evaluation failed (custom weights)", {"mesh": mi, "log": out[-1200:]})
            continue
        for k, name in enumerate(["lap_w", "clap_w"]):
            blk = common.parse_nested(common.eval_block(out, k))[0]
            bad = cmp_dicts(coo_dict(blk), sparse_dict(implw[name]), tol=1e-10)
            if bad:
                ndis += 1
                rep.not_shown(f"correspondence: build_laplacian(weights=w) [{name}] entries differ from the model",
                              {"mesh": mi, "first": bad[:3]})
    for mi, ((rc, out), (spec, mesh, impl, v, w, fixed)) in enumerate(zip(outs, cases)):
        if rc != 0:
            rep.not_shown("correspondence: model evaluation failed", {"mesh": mi, "log": out[-1500:]})
            continue
        blocks = [common.parse_nested(common.eval_block(out, i))[0] for i in range(9)]
        for name, blk in zip(["div", "grad", "lap", "bflux", "cgrad", "clap"], blocks[:6]):
            bad = cmp_dicts(coo_dict(blk), sparse_dict(impl[name]))
            if bad:
                ndis += 1
                rep.not_shown(f"correspondence: build_{name} entries differ from the model",
                              {"mesh": mi, "spec": list(map(str, spec)), "first": bad[:3]})
        n, E = len(mesh.sites), len(mesh.edge_mesh.edges)
        for name, blk, ref in (("lap@v", blocks[6], (impl["lap"] @ v)[sample_rows(n)]),
                               ("div@w", blocks[7], (impl["div"] @ w)[sample_rows(n)]),
                               ("grad@v", blocks[8], (impl["grad"] @ v)[sample_rows(E)])):
            mv = np.array(blk, dtype=float)
            if mv.shape != ref.shape or np.max(np.abs(mv - ref)) > 1e-10 * (np.max(np.abs(ref)) + 1e-300):
                ndis += 1
                rep.not_shown(f"correspondence: {name} differs from the model's duplicate-summing semantics",
                              {"mesh": mi, "spec": list(map(str, spec))})
    rep.coverage.update({"meshes": len(specs), "correspondence_disagreements": ndis,
                         "operators_compared_per_mesh": 6, "matvec_compared_per_mesh": 3})
    rep.assumptions += ["link variables U = exp(-i A.dir) computed by numpy and passed to the model as data",
                        "meshes: scipy Delaunay (random / jittered / offset grid, with and without Laplacian smoothing) "
                        "and real Device.make_mesh meshes with 0-2 holes"]
    return rep.finish(level="proof", trusted_base=common.STD_TRUSTED,
                      rule="one case per mesh; every stored entry of 6 operators compared with the model, 3 mat-vec products, "
                           "9 identities checked on the implementation; non-trivial = distinct (sites, edges, components)")
