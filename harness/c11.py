"""C11 - the trajectory depends only on the physics and can be resumed.

Oracle on the implementation: (a) pairs of real runs on the same physics input that differ only in how
they are observed (save_every, explicit output file vs temporary, progress interval, probe points):
frames carrying the same step label must be bit-identical; (b) a fixed-step run split at every point
and resumed from the saved final state must reproduce the frames of the uninterrupted run bit for bit.
Model tie: the frame/label semantics used to match frames is Model.Runner (checked in C05); the
theorems observer_independent and resume_concat are re-checked here."""
from __future__ import annotations

import hashlib
import os
import random
import tempfile

import h5py
import numpy as np

from . import common, meshes, runs

FIELDS = ("psi", "mu", "supercurrent", "normal_current", "induced_vector_potential")


def read_frames(path):
    out = {}
    with h5py.File(path, "r") as f:
        for key in f["data"]:
            g = f["data"][key]
            s = int(g.attrs["step"])
            h = hashlib.sha256()
            for name in FIELDS:
                if name in g:
                    h.update(np.ascontiguousarray(np.array(g[name])).tobytes())
            out[s] = (h.hexdigest(), float(g.attrs["time"]), {n: np.array(g[n]) for n in ("psi",)})
    return out


def _eps_td(r, *, t):
    return 1.0 - 0.7 * float(np.exp(-4.0 * (r[0] - 0.2) ** 2)) * min(max(t / 0.1, 0.0), 1.0)


def observe_pairs(rep, rng, tier):
    base_dev = meshes.make_device(rng, holes=1, terminals=2, max_edge_length=1.0, probe_points=True)
    noprobe = meshes.make_device(random.Random(1), holes=1, terminals=2, max_edge_length=1.0, probe_points=True)
    variants = [
        dict(save_every=1), dict(save_every=3), dict(save_every=7), dict(save_every=50),
        dict(save_every=3, output="temp"), dict(save_every=3, progress_interval=5), dict(save_every=3, progress_interval=0),
        dict(save_every=7, progress_interval=1),
        dict(save_every=4, probes=False),
        # output destination given as a RELATIVE name in a job directory; afterwards the process moves to another directory that
        # holds a file of the same name from other physics
        dict(save_every=3, output="relative"),
    ]
    physics = [
        dict(A=0.3, cur=1.5, adaptive=True, screening=False, T=0.25),
        # generous dt_max: the adaptive proposal is not clipped, so the step history (and anything it may wrongly depend
        # on, such as the save interval) shows in the trajectory
        dict(A=0.6, cur=3.0, adaptive=True, screening=False, T=0.6, dt_max=0.5),
        # a time-dependent applied field (the update then also receives the previous potential and time step)
        dict(A="ramp", cur=1.0, adaptive=True, screening=False, T=0.3),
        dict(A=0.5, cur=0.0, adaptive=False, screening=False, T=0.1),
        # a time-dependent disorder parameter epsilon(r, t) (a weak link that closes while the run goes on)
        dict(A=0.3, cur=1.0, adaptive=True, screening=False, T=0.2, eps="td"),
    ]
    if tier == "thorough":
        physics.append(dict(A=0.3, cur=1.0, adaptive=True, screening=True, T=0.08))
    for pi, ph in enumerate(physics):
        results = []
        for vi, var in enumerate(variants):
            dev = base_dev
            if var.get("probes") is False:
                dev = base_dev.copy(with_mesh=True)
                dev.probe_points = None
            with tempfile.TemporaryDirectory(prefix="pyt_c11_") as td:
                kw = dict(solve_time=ph["T"], dt_init=2e-3, dt_max=ph.get("dt_max", 2e-2) if ph["adaptive"] else 2e-3, adaptive=ph["adaptive"],
                          save_every=var["save_every"], include_screening=ph["screening"], screening_tolerance=1e-2)
                if "progress_interval" in var:
                    kw["progress_interval"] = var["progress_interval"]
                cur = {"source": ph["cur"], "drain": -ph["cur"]}
                Afield = runs.ramp_field_param(0.1, 0.7, 0.2) if ph["A"] == "ramp" else ph["A"]
                cwd0 = os.getcwd()
                if var.get("output") == "temp":
                    opts = runs.make_options(None, **kw)
                elif var.get("output") == "relative":
                    job, other = os.path.join(td, "job"), os.path.join(td, "other")
                    os.makedirs(job), os.makedirs(other)
                    os.chdir(other)
                    runs.traced_solve(dev, runs.make_options(None, **{**kw, "solve_time": kw["solve_time"] / 3}, output_file="out.h5"),
                                      A=0.05, currents={"source": 0.5 * ph["cur"], "drain": -0.5 * ph["cur"]})
                    os.chdir(job)
                    opts = runs.make_options(None, **kw, output_file="out.h5")
                else:
                    opts = runs.make_options(td, **kw)
                try:
                    sol, _ = runs.traced_solve(dev, opts, A=Afield, currents=cur, eps=_eps_td if ph.get("eps") == "td" else 1.0)
                    if var.get("output") == "relative":
                        os.chdir(os.path.join(td, "other"))
                finally:
                    if var.get("output") != "relative":
                        os.chdir(cwd0)
                if var.get("output") == "temp":
                    # the temporary file is gone; the returned Solution carries the final frame in memory
                    d = sol.tdgl_data
                    h = hashlib.sha256()
                    for name in FIELDS:
                        h.update(np.ascontiguousarray(np.asarray(getattr(d, name))).tobytes())
                    results.append((var, {int(d.state["step"]): (h.hexdigest(), float(d.state["time"]), {"psi": np.asarray(d.psi)})}))
                else:
                    try:
                        results.append((var, read_frames(sol.path)))
                    finally:
                        os.chdir(cwd0)
            rep.count(1)
        ref_var, ref = results[0]              # save_every = 1: every step
        for var, fr in results[1:]:
            for s, (h, t, _) in fr.items():
                if s not in ref:
                    rep.violation("a frame label exists in one observation of the run but not in the every-step observation",
                                  {"physics": ph, "variant": var, "step": s})
                    break
                if ref[s][0] != h or ref[s][1] != t:
                    rep.violation("frames with the same step label differ between two observations of the same physics",
                                  {"physics": ph, "variant": var, "reference": ref_var, "step": s,
                                   "max_abs_dpsi": float(np.max(np.abs(ref[s][2]["psi"] - fr[s][2]["psi"]))),
                                   "times": [ref[s][1], t]})
                    break
            rep.nontrivial(("observe", pi, str(sorted(var.items()))))
        rep.sample({"physics": ph, "variants": len(variants), "frames_every_step": len(ref)})


def resume_splits(rep, rng, tier):
    dev = meshes.make_device(rng, holes=0, terminals=2, max_edge_length=1.0)
    dt = 2.0 ** -7
    N = 12
    # (third pass: contacts left free, terminal_psi=None - the seeded state is then taken over without the contact value being
    # imposed on it, i.e. through a different code path of solve())
    for screening, tpsi in [(False, 0.0), (True, 0.0), (False, None)]:
        cur = {"source": 1.0, "drain": -1.0}
        common_kw = dict(dt_init=dt, dt_max=dt, adaptive=False, save_every=1, include_screening=screening,
                         screening_tolerance=1e-3, terminal_psi=tpsi)
        with tempfile.TemporaryDirectory(prefix="pyt_c11_") as td:
            full, _ = runs.traced_solve(dev, runs.make_options(td, solve_time=N * dt, output_file=td + "/full.h5", **common_kw),
                                        A=0.4, currents=cur)
            ref = read_frames(full.path)
            for n in (range(1, N) if (tier == "thorough" or (not screening and tpsi is not None)) else (3, 8)):
                p1, _ = runs.traced_solve(dev, runs.make_options(td, solve_time=n * dt, output_file=f"{td}/a{n}.h5", **common_kw),
                                          A=0.4, currents=cur)
                seed_hash = hashlib.sha256(b"".join(np.ascontiguousarray(np.asarray(getattr(p1.tdgl_data, nm))).tobytes()
                                                    for nm in FIELDS)).hexdigest()
                p2, _ = runs.traced_solve(dev, runs.make_options(td, solve_time=(N - n) * dt, output_file=f"{td}/b{n}.h5", **common_kw),
                                          A=0.4, currents=cur, seed_solution=p1)
                fr = read_frames(p2.path)
                after = hashlib.sha256(b"".join(np.ascontiguousarray(np.asarray(getattr(p1.tdgl_data, nm))).tobytes()
                                                for nm in FIELDS)).hexdigest()
                if after != seed_hash:
                    rep.violation("resuming from a saved state modified the seed solution's in-memory data (aliasing)",
                                  {"split_after": n, "screening": screening, "terminal_psi": tpsi})
                if n in (3, 8):
                    # the same seed object used a second time, observed differently
                    kw2 = dict(common_kw)
                    kw2["save_every"] = 4
                    p3, _ = runs.traced_solve(dev, runs.make_options(td, solve_time=(N - n) * dt, output_file=f"{td}/c{n}.h5",
                                                                     progress_interval=10, **kw2),
                                              A=0.4, currents=cur, seed_solution=p1)
                    for s3, (h3, t3, d3) in read_frames(p3.path).items():
                        if (n + s3) not in ref or ref[n + s3][0] != h3:
                            rep.violation("a second resume from the same seed object does not reproduce the uninterrupted run",
                                          {"split_after": n, "frame_step_in_resumed_run": s3, "screening": screening, "terminal_psi": tpsi})
                            break
                    rep.count(1)
                ok = True
                for s, (h, t, d) in fr.items():
                    if (n + s) not in ref or ref[n + s][0] != h:
                        ok = False
                        rep.violation("a run resumed from a saved final state does not reproduce the uninterrupted run bit for bit",
                                      {"split_after": n, "of": N, "frame_step_in_resumed_run": s, "screening": screening, "terminal_psi": tpsi,
                                       "max_abs_dpsi": (float(np.max(np.abs(ref[n + s][2]["psi"] - d["psi"])))
                                                        if (n + s) in ref else None)})
                        break
                if ok and max(fr) != N - n:
                    rep.violation("resumed run has the wrong number of steps", {"split_after": n, "last": max(fr)})
                rep.count(1)
                rep.nontrivial(("resume", n, screening, tpsi))
    rep.sample({"resume": "all split points", "N": N, "dt": dt})


def run(rep: common.Report, tier: str, seed: int, replay=None) -> int:
    rep.use_props(common.check_props("C11"))
    rng = random.Random(seed * 7919 + 11)
    observe_pairs(rep, rng, tier)
    resume_splits(rep, rng, tier)
    rep.assumptions += ["frames are matched by their step label; the label semantics is the one proved and checked in C05",
                        "bit-identity measured by sha256 over psi, mu, supercurrent, normal_current, induced_vector_potential"]
    return rep.finish(level="proof", trusted_base=common.STD_TRUSTED,
                      rule="one evaluation = one real run; pairs compared frame by frame; resume at every split point of a 12-step "
                           "fixed-step run; non-trivial = distinct (observation variant) / (split point, screening)")
