"""Run the repo's pinned suite and compare with /root/.vp/BASELINE.json stable_pass."""
import json, subprocess, sys, tempfile, xml.etree.ElementTree as ET, os
base = json.load(open("/root/.vp/BASELINE.json"))
with tempfile.TemporaryDirectory() as td:
    x = os.path.join(td, "j.xml")
    env = dict(os.environ); env.pop("PY_TDGL_VERIF", None)
    r = subprocess.run(f"cd /repo && /venv/bin/python -m pytest -ra -q -p no:cacheprovider --timeout=900 --continue-on-collection-errors --junitxml={x}",
                       shell=True, capture_output=True, text=True, env=env)
    passed = set()
    for tc in ET.parse(x).getroot().iter("testcase"):
        if not any(ch.tag in ("failure", "error", "skipped") for ch in tc):
            passed.add(f"{tc.get('classname')}::{tc.get('name')}")
want = set(base["stable_pass"])
missing = sorted(want - passed)
print("stable_pass:", len(want), "passed now:", len(passed), "missing:", len(missing))
for m in missing[:20]:
    print("  MISSING", m)
sys.exit(1 if missing else 0)
