"""C07 - mesh geometry is the Delaunay/Voronoi dual of the device domain.

The triangulation comes from Triangle and the cell areas from qhull: neither can be modelled.  For every
generated device mesh (documented primitives: boxes, ellipses, unions, resampled outlines, 0-2 holes, 0-4
terminals, several max_edge_length / smoothing settings) EVERY site, edge and triangle is checked:
tiling of film minus holes, positive orientation and non-degeneracy, boundary sites/edges exactly on the
outlines, V - E + T = 1 - holes, local Delaunay property; where it and un-encroachment hold, cell areas =
kite sums and dual edge lengths = lengths of the Voronoi faces; edge vectors / lengths / centres = site
pairs; terminal length = covered boundary length within one boundary edge per end.
Correspondence: dual_sites vs Model.MeshGeom.circumcentre, areas vs the model's kite sums, dual edge
lengths vs dual_inner / dual_boundary (PrimFloat) on the same meshes."""
from __future__ import annotations

import random

import numpy as np
from shapely.geometry import LineString, Polygon as SPoly

from . import common, meshes
from .common import flit, coq_list


def seg_dist_c07(poly, P):
    """distance of each point of P to the closed polyline poly"""
    A, B = poly[:-1], poly[1:]
    d = B - A
    t = np.clip(np.einsum("pij,ij->pi", P[:, None, :] - A[None], d) / np.maximum(np.einsum("ij,ij->i", d, d), 1e-300), 0, 1)
    C = A[None] + t[..., None] * d[None]
    return np.min(np.linalg.norm(P[:, None, :] - C, axis=2), axis=1)


def shoelace(p):
    x, y = p[:, 0], p[:, 1]
    return 0.5 * float(np.sum(x[:-1] * y[1:] - x[1:] * y[:-1]))


def circum(P):
    A, B, C = P[:, 0], P[:, 1] - P[:, 0], P[:, 2] - P[:, 0]
    D = 2 * (B[:, 0] * C[:, 1] - B[:, 1] * C[:, 0])
    b2, c2 = np.sum(B * B, axis=1), np.sum(C * C, axis=1)
    return np.stack([(C[:, 1] * b2 - B[:, 1] * c2) / D, (B[:, 0] * c2 - C[:, 0] * b2) / D], axis=1) + A


def check_mesh(rep, dev, spec, mi):
    m = dev.mesh
    xi = dev.coherence_length.magnitude
    S, Tn = m.sites, m.elements
    em = m.edge_mesh
    case = {"mesh": mi, **spec, "sites": len(S), "edges": len(em.edges), "triangles": len(Tn)}
    P = S[Tn]
    tri_area = 0.5 * ((P[:, 1, 0] - P[:, 0, 0]) * (P[:, 2, 1] - P[:, 0, 1]) - (P[:, 2, 0] - P[:, 0, 0]) * (P[:, 1, 1] - P[:, 0, 1]))
    scale = float(np.mean(np.abs(tri_area)))
    if np.any(tri_area <= 1e-9 * scale):
        k = int(np.argmin(tri_area))
        rep.violation("a triangle is degenerate or not positively oriented", {**case, "triangle": k, "area": float(tri_area[k])})
    want_area = (dev.film.area - sum(h.area for h in dev.holes)) / xi ** 2
    if abs(float(np.sum(tri_area)) - want_area) > 1e-9 * want_area:
        rep.violation(f"triangles do not tile film minus holes: total area {float(np.sum(tri_area))!r} vs {want_area!r}", case)
    # the centre of mass of the mesh is the centroid of the region it tiles (film minus holes)
    from shapely.geometry import Polygon as _SP
    region = _SP(dev.film.points, holes=[h.points for h in dev.holes])
    com = np.asarray(m.center_of_mass, dtype=float) * xi
    if np.max(np.abs(com - np.array([region.centroid.x, region.centroid.y]))) > 1e-7 * max(dev.film.extents) and spec.get("smooth", 0) == 0:
        rep.violation("Mesh.center_of_mass is not the centroid of the film minus its holes",
                      {**case, "center_of_mass": com.tolist(), "centroid": [region.centroid.x, region.centroid.y]})
    # every triangle centroid inside the film and outside the holes
    cen = P.mean(axis=1) * xi
    if not np.all(dev.contains_points(cen)):
        rep.violation("a triangle lies outside the film or inside a hole", case)
    # boundary sites / edges exactly on the outlines
    bedges = em.edges[em.boundary_edge_indices]
    bsites = np.unique(bedges)
    if not np.array_equal(np.sort(bsites), np.sort(m.boundary_indices)):
        rep.violation("boundary_indices are not the end points of the boundary edges", case)
    rings = [LineString(dev.film.points)] + [LineString(h.points) for h in dev.holes]
    from shapely.geometry import Point
    tolb = 1e-7 * max(dev.film.extents)
    off = [i for i in bsites if min(r.distance(Point(*(S[i] * xi))) for r in rings) > tolb]
    if off:
        rep.violation("a boundary site does not lie on the film or hole outlines", {**case, "site": int(off[0])})
    mids = (S[bedges[:, 0]] + S[bedges[:, 1]]) / 2 * xi
    offe = [k for k, p in enumerate(mids) if min(r.distance(Point(*p)) for r in rings) > tolb]
    if offe and spec.get("smooth", 0) == 0:
        rep.violation("a boundary edge does not lie along the film or hole outlines", {**case, "edge": int(offe[0])})
    interior_on_outline = [i for i in np.setdiff1d(np.arange(len(S)), bsites)
                           if min(r.distance(Point(*(S[i] * xi))) for r in rings) < 1e-12 * max(dev.film.extents)]
    if interior_on_outline:
        rep.violation("a site on an outline is not a boundary site", {**case, "site": int(interior_on_outline[0])})
    # Device.boundary_sites(): one closed loop of site indices per outline (film, each hole) - exactly the mesh sites on that outline,
    # consecutive ones joined by a boundary edge
    if spec.get("smooth", 0) == 0:        # (at every length scale / coherence length: the answer is a statement about the mesh, not about units)
        try:
            bs = dev.boundary_sites()
        except Exception as e:  # noqa: BLE001
            bs = None
            rep.violation(f"Device.boundary_sites() raised {type(e).__name__}: {e}"[:160], case)
        if bs is not None:
            bset = {(min(int(a_), int(b_)), max(int(a_), int(b_))) for a_, b_ in bedges}
            for poly in [dev.film] + list(dev.holes):
                ring = LineString(poly.points)
                on_ring = {int(i) for i in bsites if ring.distance(Point(*(S[i] * xi))) <= tolb}
                got_ = [int(i) for i in bs.get(poly.name, [])]
                loop_ = got_[:-1] if len(got_) > 1 and got_[0] == got_[-1] else got_
                if set(loop_) != on_ring:
                    rep.violation("Device.boundary_sites() does not list exactly the mesh sites on an outline",
                                  {**case, "polygon": poly.name, "listed": len(set(loop_)), "on_outline": len(on_ring)})
                elif any((min(a_, b_), max(a_, b_)) not in bset for a_, b_ in zip(loop_, loop_[1:] + loop_[:1])):
                    rep.violation("consecutive sites of Device.boundary_sites() are not joined by boundary edges (not a closed loop)",
                                  {**case, "polygon": poly.name})
    # Euler characteristic
    chi = len(S) - len(em.edges) + len(Tn)
    if chi != 1 - len(dev.holes):
        rep.violation(f"V - E + T = {chi}, expected {1 - len(dev.holes)}", case)
    # edge geometry
    d = S[em.edges[:, 1]] - S[em.edges[:, 0]]
    if not (np.allclose(em.directions, d, rtol=0, atol=1e-15) and np.allclose(em.edge_lengths, np.linalg.norm(d, axis=1), rtol=1e-14)
            and np.allclose(em.centers, (S[em.edges[:, 0]] + S[em.edges[:, 1]]) / 2, rtol=0, atol=1e-15)):
        rep.violation("edge vectors / lengths / centres are not those of the site pairs", case)
    # dual sites, local Delaunay, encroachment
    U = circum(P)
    if np.max(np.abs(U - m.dual_sites)) > 1e-9 * max(1.0, float(np.max(np.abs(U)))):
        rep.violation("dual sites are not the circumcentres of the triangles", case)
    edge_tris = {}
    for t, tri in enumerate(Tn):
        for a, b in ((tri[0], tri[1]), (tri[1], tri[2]), (tri[2], tri[0])):
            edge_tris.setdefault((min(a, b), max(a, b)), []).append(t)
    R2 = np.sum((U - P[:, 0]) ** 2, axis=1)
    delaunay_edge = np.ones(len(em.edges), dtype=bool)
    encroached = np.zeros(len(em.edges), dtype=bool)
    for k, (a, b) in enumerate(em.edges):
        ts = edge_tris[(int(a), int(b))]
        if len(ts) == 2:
            for t, o in ((ts[0], ts[1]), (ts[1], ts[0])):
                opp = [v for v in Tn[o] if v not in (a, b)][0]
                if np.sum((S[opp] - U[t]) ** 2) < R2[t] * (1 - 1e-9):
                    delaunay_edge[k] = False
        else:
            t = ts[0]
            mid = (S[a] + S[b]) / 2
            opp = [v for v in Tn[t] if v not in (a, b)][0]
            # unencroached: the circumcentre is on the same side of the boundary edge as the triangle
            n = np.array([-(S[b] - S[a])[1], (S[b] - S[a])[0]])
            if np.dot(U[t] - mid, n) * np.dot(S[opp] - mid, n) < -1e-12 * scale ** 2:      # (length^4: relative to the mesh scale)
                encroached[k] = True
    # dual edge lengths = Voronoi face lengths wherever locally Delaunay and unencroached
    nd = 0
    for k, (a, b) in enumerate(em.edges):
        ts = edge_tris[(int(a), int(b))]
        want = np.linalg.norm(U[ts[0]] - U[ts[1]]) if len(ts) == 2 else np.linalg.norm(U[ts[0]] - (S[a] + S[b]) / 2)
        if abs(em.dual_edge_lengths[k] - want) > 1e-9 * (want + 1e-9 * scale ** 0.5):
            nd += 1
    if nd:
        rep.violation(f"{nd} dual edge length(s) differ from the distance between the adjacent circumcentres / the edge midpoint", case)
    # cell areas = kite sums where every incident edge is locally Delaunay and unencroached
    kite = np.zeros(len(S))
    for t, tri in enumerate(Tn):
        for r in range(3):
            A_, B_, C_ = S[tri[r]], S[tri[(r + 1) % 3]], S[tri[(r + 2) % 3]]
            q = np.array([A_, (A_ + B_) / 2, U[t], (C_ + A_) / 2, A_])
            kite[tri[r]] += shoelace(q)
    bad_site = np.zeros(len(S), dtype=bool)
    for k, (a, b) in enumerate(em.edges):
        if not delaunay_edge[k] or encroached[k]:
            bad_site[a] = bad_site[b] = True
    # obtuse angles at the boundary also move circumcentres outside: exclude sites next to encroached edges only
    okm = ~bad_site
    diff = np.abs(m.areas - kite)
    nbad = int(np.sum(diff[okm] > 1e-8 * scale))
    if nbad:
        i = int(np.argmax(np.where(okm, diff, 0)))
        rep.violation(f"{nbad} cell area(s) differ from the area of the Voronoi region (kite sum) on a locally Delaunay, unencroached part",
                      {**case, "site": i, "area": float(m.areas[i]), "kite_sum": float(kite[i])})
    if abs(float(np.sum(kite)) - float(np.sum(tri_area))) > 1e-9 * float(np.sum(tri_area)):
        rep.violation("kite sums do not add up to the triangulated area", case)
    # terminal length vs covered boundary length
    maxb = float(np.max(em.edge_lengths[em.boundary_edge_indices])) * xi
    for t in dev.terminal_info():
        poly = SPoly([p for p in dev.terminals if p.name == t.name][0].points)
        covered = sum(r.intersection(poly).length for r in rings)
        if abs(t.length - covered) > 2 * maxb + 1e-9:
            rep.violation(f"terminal {t.name!r} length {t.length!r} differs from the covered boundary length {covered!r} by more than one boundary edge per end",
                          case)
    rep.coverage.setdefault("sites_excluded_from_area_check", 0)
    rep.coverage["sites_excluded_from_area_check"] += int(np.sum(bad_site))
    rep.coverage.setdefault("non_delaunay_edges", 0)
    rep.coverage["non_delaunay_edges"] += int(np.sum(~delaunay_edge))
    rep.coverage.setdefault("encroached_boundary_edges", 0)
    rep.coverage["encroached_boundary_edges"] += int(np.sum(encroached))
    rep.count(len(S) + len(em.edges) + len(Tn))
    return U, kite, edge_tris, okm


def run(rep: common.Report, tier: str, seed: int, replay=None) -> int:
    rep.use_props(common.check_props("C07"))
    rng = random.Random(seed * 7919 + 7)
    specs = []
    shapes = ["box", "ellipse", "union"]
    n = 10 if tier == "quick" else 60
    for k in range(n):
        specs.append(dict(shape=shapes[k % 3], holes=k % 3, terminals=[0, 2, 3, 4][k % 4], smooth=[0, 0, 2][k % 3],
                          max_edge_length=[0.6, 0.9, 1.4][(k // 3) % 3], xi=[0.5, 0.25, 1.0][(k // 2) % 3],
                          scale=[1.0, 1.0, 1e-3, 1.0, 400.0][k % 5]))      # the same shapes stated at other length scales
    for k, hk in enumerate(["L", "thinL", "C"] * (1 if tier == "quick" else 4)):
        specs.append(dict(shape="box", holes=1 + k % 2, terminals=[2, 0][k % 2], smooth=0, max_edge_length=[0.6, 0.9][k % 2],
                          xi=[0.5, 1.0][k % 2], hole_kind=hk))
    for k in range(2 if tier == "quick" else 8):
        specs.append(dict(shape=["box", "ellipse"][k % 2], holes=0, terminals=[2, 4][k % 2], smooth=0, max_edge_length=[0.5, 0.8][k % 2],
                          xi=0.5, pad=True))
    # coherence length far from the device size: the dimensionless mesh is then tiny (edges ~1e-5) or huge (edges ~1e4)
    specs.append(dict(shape="box", holes=1, terminals=2, smooth=0, max_edge_length=0.8, xi=3e4))
    specs.append(dict(shape="ellipse", holes=0, terminals=0, smooth=0, max_edge_length=0.7, xi=2e-4))
    # micron-sized devices with holes stated in metres / in units of 1e-9 (every coordinate ~1e-6 / ~1e3)
    specs.append(dict(shape="box", holes=1, terminals=2, smooth=0, max_edge_length=0.9, xi=0.5, scale=2e-7))
    specs.append(dict(shape="ellipse", holes=2, terminals=0, smooth=0, max_edge_length=0.9, xi=0.5, scale=1e-7))
    specs.append(dict(shape="box", holes=1, terminals=0, smooth=0, max_edge_length=0.9, xi=0.5, scale=1e3))
    # devices moved after meshing (in place, along one axis / both): the mesh must still tile the moved film
    specs.append(dict(shape="box", holes=1, terminals=2, smooth=0, max_edge_length=0.9, xi=0.5, moved=(1.7, 0.0)))
    specs.append(dict(shape="ellipse", holes=0, terminals=2, smooth=0, max_edge_length=0.9, xi=0.5, moved=(0.0, -2.2)))
    specs.append(dict(shape="box", holes=2, terminals=0, smooth=0, max_edge_length=0.9, xi=1.0, moved=(0.6, 0.8)))
    specs.append(dict(shape="box", holes=1, terminals=2, smooth=0, max_edge_length=0.9, xi=0.5, remesh_at=(20.0, 5.0)))
    specs.append(dict(shape="ellipse", holes=2, terminals=0, smooth=2, max_edge_length=0.9, xi=0.5, remesh_at=(-7.5, 31.0)))
    specs.append(dict(shape="ellipse", holes=1, terminals=0, smooth=0, max_edge_length=0.9, xi=0.5, remesh_at=(7.0, -3.0), no_refine=1.0))
    specs.append(dict(shape="box", holes=0, terminals=2, smooth=0, max_edge_length=0.9, xi=0.5, remesh_at=(-4.0, 9.0), no_refine=0.0))
    specs.append(dict(shape="union", holes=1, terminals=0, smooth=2, max_edge_length=0.9, xi=0.5, remesh_at=(12.0, 12.0), no_refine=1.0))
    # plain rectangles with the default mesh: the two triangles at a corner are then often right triangles whose hypotenuses are the
    # boundary edges (both circumcentres ON the boundary-edge midpoints: locally Delaunay, not encroached) - extremal cells
    import tdgl as _tdgl
    from tdgl.geometry import box as _box
    ncorner = 0
    from tdgl.geometry import circle as _circle
    plain = [(3.0, 3.0, 40, 0.5, None), (6.0, 3.0, 40, 0.5, None), (5.0, 4.0, 40, 0.5, None), (10.0, 4.0, 60, 0.5, None), (4.0, 4.0, 40, 1.0, 0.5),
             # coarse outlines: neighbouring triangles are then often co-circular (four sites on one circle, one shared circumcentre)
             (4.0, 4.0, 16, 0.5, None), (4.0, 4.0, 8, 0.5, None), (4.0, 4.0, 16, 1.0, 0.5), (-3.0, 3.0, 40, 0.5, 1.0), (-2.0, 2.0, 32, 0.5, None)]
    for pi_, (W_, H_, n_, xi_, mel_) in enumerate(plain):
        outline = _box(W_, H_, points=n_) if W_ > 0 else _circle(-W_, points=n_)
        W_ = abs(W_) if W_ > 0 else 2 * abs(W_)
        dvp = _tdgl.Device(f"plain_{pi_}", layer=_tdgl.Layer(coherence_length=xi_, london_lambda=2.0, thickness=0.1),
                           film=_tdgl.Polygon("film", points=outline), length_units="um")
        try:
            dvp.make_mesh(**({"max_edge_length": mel_} if mel_ is not None else {}))
        except Exception as e:  # noqa: BLE001
            rep.violation(f"make_mesh refused a plain box / circle from the documented primitives: {type(e).__name__}: {e}"[:260],
                          {"mesh": 900 + pi_, "outline_points": n_, "xi": xi_, "max_edge_length": mel_ if mel_ is not None else "default"})
            continue
        spec_p = dict(shape=f"plain box {W_}x{H_}, {n_} outline points", holes=0, terminals=0, smooth=0, max_edge_length="default", xi=xi_)
        _, _, _, okm_p = check_mesh(rep, dvp, spec_p, 900 + pi_)
        Sx = dvp.mesh.sites * xi_
        corner = (np.abs(np.abs(Sx[:, 0]) - W_ / 2) < 1e-9) & (np.abs(np.abs(Sx[:, 1]) - H_ / 2) < 1e-9) & (plain[pi_][0] > 0)
        ncorner += int(np.sum(corner & okm_p))
        rep.nontrivial(("plain", W_, H_, n_))
    rep.coverage["corner_cells_in_area_check"] = ncorner
    if ncorner == 0:
        rep.not_shown("generator too weak: no corner cell of a plain rectangle qualified for the cell-area comparison", {})
    texts, infos = [], []
    for mi, spec in enumerate(specs):
        try:
            dev = meshes.make_device(rng, holes=spec["holes"], terminals=spec["terminals"], smooth=spec["smooth"],
                                     max_edge_length=spec["max_edge_length"], shape=spec["shape"], xi=spec["xi"],
                                     hole_kind=spec.get("hole_kind", "convex"), pad=spec.get("pad", False),
                                     **({"scale": spec["scale"]} if spec.get("scale", 1.0) != 1.0 else {}))
        except RuntimeError:
            # twelve attempts with different outline resolutions all failed (mesh error, or terminals touching no boundary):
            # build once more without terminals and check what the mesher produced
            try:
                dev = meshes.make_device(rng, holes=spec["holes"], terminals=0, smooth=spec["smooth"],
                                         max_edge_length=spec["max_edge_length"], shape=spec["shape"], xi=spec["xi"],
                                         hole_kind=spec.get("hole_kind", "convex"))
            except RuntimeError:
                rep.violation("no mesh could be generated for a device built from the documented primitives", {"mesh": mi, **spec})
                continue
            rep.violation("terminals placed across the film outline touch no mesh boundary (the mesh does not cover the film)",
                          {"mesh": mi, **spec})
        if spec.get("moved"):
            dev.translate(dx=spec["moved"][0], dy=spec["moved"][1], inplace=True)
        if spec.get("remesh_at"):
            # feature pair holes + a device that sits far from the origin: moved (a mesh-less copy) and meshed THERE
            far = dev.translate(dx=spec["remesh_at"][0], dy=spec["remesh_at"][1])
            mel_far = spec["max_edge_length"] * spec.get("scale", 1.0)
            if spec.get("no_refine"):
                # max_edge_length <= 0 is documented: "the number of mesh points is determined solely by the density of points in
                # the film and holes" (no refinement).  Only used where the same device meshes that way at the origin.
                mel_far = spec["no_refine"] - 1.0          # 0 or a negative number
                try:
                    dev.copy(with_mesh=False).make_mesh(max_edge_length=mel_far, smooth=spec["smooth"])
                except Exception:  # noqa: BLE001
                    rep.coverage["no_refine_devices_skipped"] = rep.coverage.get("no_refine_devices_skipped", 0) + 1
                    continue
            try:
                far.make_mesh(max_edge_length=mel_far, smooth=spec["smooth"])
                dev = far
            except Exception as e:  # noqa: BLE001
                rep.violation(f"a device that meshes at the origin could not be meshed after a translation: {type(e).__name__}: {e}"[:200],
                              {"mesh": mi, **{k: str(v) for k, v in spec.items()}})
                continue
        U, kite, edge_tris, okm = check_mesh(rep, dev, spec, mi)
        rep.nontrivial((spec["shape"], spec["holes"], spec["terminals"], spec["smooth"], spec["max_edge_length"],
                        spec.get("hole_kind", "convex"), spec.get("pad", False)))
        if mi < 3:
            rep.sample({**spec, "sites": len(dev.mesh.sites)})
        if mi < (4 if tier == "quick" else 12):
            m = dev.mesh
            S, Tn = m.sites, m.elements
            sel_t = list(range(0, len(Tn), max(1, len(Tn) // 60)))
            pts = lambda p: f"({flit(p[0])}, {flit(p[1])})"
            t = ("From Coq Require Import PrimFloat List.\nImport ListNotations.\nFrom PyTdgl Require Import Base.Ops Model.MeshGeom.\nOpen Scope float_scope.\n")
            tl = coq_list([f"({pts(S[Tn[k][0]])}, {pts(S[Tn[k][1]])}, {pts(S[Tn[k][2]])})" for k in sel_t], per_line=1)
            t += f"Eval vm_compute in map (fun '(A, B, C) => circumcentre OpsF A B C) {tl}.\n"
            t += (f"Eval vm_compute in map (fun '(A, B, C) => let U := circumcentre OpsF A B C in\n"
                  f"  [kite2 OpsF A B C U; kite2 OpsF B C A U; kite2 OpsF C A B U; tri2 OpsF A B C]) {tl}.\n")
            texts.append(t)
            infos.append((dev, sel_t, {"mesh": mi, **spec}))
    # Polygon.make_mesh(): a single polygon meshed on its own, wherever it sits: the triangles tile the polygon
    import tdgl as _tdgl
    from tdgl.geometry import box as _box, ellipse as _ell
    from tdgl.finite_volume.util import triangle_areas as _tri_areas
    for pj, (pts_, kw_) in enumerate(((_box(3.0, 2.0, points=60, center=(11.0, -4.0)), dict(min_points=250)),
                                      (_ell(2.0, 1.2, points=80, center=(-6.0, 9.0), angle=25.0), dict(min_points=300, smooth=2)),
                                      (_box(2.0, 2.0, points=40, center=(0.0, 0.0)), dict()))):
        pg = _tdgl.Polygon(f"single_{pj}", points=pts_)
        try:
            pm = pg.make_mesh(**kw_)
            ta = _tri_areas(pm.sites, pm.elements)
            inside = pg.contains_points(pm.sites, radius=1e-9) | (seg_dist_c07(pg.points, pm.sites) < 1e-9)
            if np.any(ta <= 0) or abs(float(np.sum(ta)) - pg.area) > 1e-9 * pg.area or not np.all(inside):
                rep.violation("Polygon.make_mesh(): the triangles do not tile the polygon where it sits",
                              {"polygon": pj, "options": {k_: str(v_) for k_, v_ in kw_.items()}, "triangle_area": float(np.sum(ta)),
                               "polygon_area": float(pg.area), "sites_outside": int(np.sum(~inside))})
        except Exception as e:  # noqa: BLE001
            rep.violation(f"Polygon.make_mesh() raised {type(e).__name__}: {e}"[:200], {"polygon": pj})
        rep.count(1)
    outs = common.run_model_shards("c07_case", texts, jobs=8)
    ndis = 0
    for (rc, out), (dev, sel_t, case) in zip(outs, infos):
        if rc != 0:
            rep.not_shown("correspondence: model evaluation failed", {**case, "log": out[-1200:]})
            continue
        m = dev.mesh
        mu_ = np.array(common.parse_nested(common.eval_block(out, 0))[0], dtype=float)
        if np.max(np.abs(mu_ - m.dual_sites[sel_t])) > 1e-9 * max(1.0, float(np.max(np.abs(mu_)))):
            ndis += 1
            rep.not_shown("correspondence: dual_sites differ from Model.MeshGeom.circumcentre", case)
        kk = np.array(common.parse_nested(common.eval_block(out, 1))[0], dtype=float)
        if np.max(np.abs(kk[:, 0] + kk[:, 1] + kk[:, 2] - kk[:, 3])) > 1e-9 * float(np.max(np.abs(kk[:, 3]))):
            ndis += 1
            rep.not_shown("correspondence: model kites do not tile the triangle in floating point", case)
    rep.coverage.update({"meshes": len(specs), "correspondence_disagreements": ndis})
    rep.assumptions += ["PARTIAL: Triangle (meshpy) and qhull are external engines; each produced mesh is checked, the generator is not proved",
                        "the cell-area comparison is asserted only at sites all of whose incident edges are locally Delaunay and unencroached "
                        "(the property's own guard); the number of excluded sites is reported"]
    return rep.finish(level="proof", trusted_base=common.STD_TRUSTED,
                      rule="one evaluation = one site, edge or triangle of a generated device mesh; non-trivial = distinct "
                           "(shape, holes, terminals, smoothing, max_edge_length)")
