"""C10 - refreshing link variables in place equals rebuilding the operators.

(a) operator level: MeshOperators after a sequence of set_link_exponents calls vs a fresh
    instance for the last exponents (oracle, bit-for-bit) and vs Model.Refresh.ops_after
    evaluated by vm_compute (correspondence, small meshes, every stored entry).
(b) solver level: real tdgl runs with time-dependent applied fields (fast ramp, slow ramp,
    piecewise constant) and screening; after every update the operators must equal a rebuild
    for the potential the step used (oracle) and the held exponents must follow the model's
    trigger (correspondence)."""
from __future__ import annotations

import random
import tempfile

import numpy as np
import scipy.sparse as sp

from . import common, meshes, runs
from .common import clit, coq_list
from .c03 import coo_dict, sparse_dict, cmp_dicts

HEADER = """From Coq Require Import PrimFloat List ZArith.
Import ListNotations.
From PyTdgl Require Import Base.Ops Base.Cplx Model.FV Model.Refresh.
Open Scope float_scope.
"""


def canon(M):
    M = sp.csr_array(M).copy()
    M.sum_duplicates()
    M.sort_indices()
    return M


def same_matrix(A, B):
    A, B = canon(A), canon(B)
    return (A.shape == B.shape and np.array_equal(A.indptr, B.indptr) and np.array_equal(A.indices, B.indices)
            and np.array_equal(A.data, B.data))


def fresh_ops(mesh, fixed, fix_psi, A):
    from tdgl.finite_volume.operators import MeshOperators
    from tdgl.solver.options import SparseSolver
    ops = MeshOperators(mesh, SparseSolver.SUPERLU, fixed_sites=fixed, fix_psi=fix_psi)
    meshes.build_like_solver(ops)          # the solver's life cycle: all operators built first, then the link variables set / refreshed
    ops.set_link_exponents(A)
    return ops


def operator_case(rep, rng, mesh, mi, small, pattern=None):
    em = mesh.edge_mesh
    E = len(em.edges)
    mode = rng.choice(["none", "terminals", "nofix"])
    b = list(map(int, mesh.boundary_indices))
    fixed = np.array(sorted(rng.sample(b, rng.randint(1, max(1, len(b) // 3)))), dtype=np.int64) \
        if mode != "none" else np.array([], dtype=np.int64)
    fix_psi = mode != "nofix"
    L = rng.randint(1, 6)
    seq = []
    if pattern is not None:
        # structured sequences: letters name distinct random potentials, '0' is the zero potential
        pots = {}
        for ch in pattern:
            if ch == "0":
                seq.append(np.zeros((E, 2)))
            else:
                if ch.upper() not in pots:
                    pots[ch.upper()] = np.array([[rng.gauss(0, 1), rng.gauss(0, 1)] for _ in range(E)])
                if ch not in pots:
                    # a lower-case letter: the upper-case potential with only a few edges changed
                    pots[ch] = pots[ch.upper()].copy()
                    for k_ in rng.sample(range(E), min(3, E)):
                        pots[ch][k_] = [rng.gauss(0, 1), rng.gauss(0, 1)]
                seq.append(pots[ch].copy())
        L = len(seq)
    for _ in range(L if pattern is None else 0):
        r = rng.random()
        if r < 0.2 and seq:
            seq.append(seq[rng.randrange(len(seq))].copy())       # repeat
        elif r < 0.35:
            seq.append(np.zeros((E, 2)))                           # zero
        else:
            seq.append(np.array([[rng.gauss(0, 1), rng.gauss(0, 1)] for _ in range(E)]))
    if mi % 3 == 2:
        # the caller keeps ONE array, updates it in place and hands the same object over each time
        buf = seq[0].copy()
        ops = fresh_ops(mesh, fixed, fix_psi, buf)
        for A in seq[1:]:
            buf[:] = A
            ops.set_link_exponents(buf)
    else:
        ops = fresh_ops(mesh, fixed, fix_psi, seq[0])
        for A in seq[1:]:
            ops.set_link_exponents(A)
    ref = fresh_ops(mesh, fixed, fix_psi, seq[-1])
    case = {"mesh": mi, "sites": len(mesh.sites), "edges": E, "mode": mode, "fixed": len(fixed), "seq_len": L}
    if not same_matrix(ops.psi_laplacian, ref.psi_laplacian):
        rep.violation("psi_laplacian after in-place refreshes differs from a rebuild for the latest potential", case)
    if not same_matrix(ops.psi_gradient, ref.psi_gradient):
        rep.violation("psi_gradient after in-place refreshes differs from a rebuild for the latest potential", case)
    if not np.array_equal(ops.link_exponents, seq[-1]):
        rep.violation("link_exponents attribute is not the latest potential", case)
    rep.count(1)
    rep.nontrivial((mode, L, len(fixed) > 0, any(np.all(a == 0) for a in seq)))
    rep.sample(case)
    if not small:
        return None
    Us = [np.exp(-1j * np.einsum("ij, ij -> i", A, em.directions)) for A in seq]
    fx = fixed if fix_psi else np.array([], dtype=np.int64)
    t = HEADER + meshes.mesh_literal(mesh)
    t += f"Definition fixed : list nat := {coq_list([str(int(f)) + '%nat' for f in fx], per_line=12)}.\n"
    for k, U in enumerate(Us):
        t += f"Definition U{k} : list (float*float) :=\n{coq_list([clit(u) for u in U], per_line=2)}.\n"
    rest = coq_list([f"U{k}" for k in range(1, len(Us))])
    t += f"Definition st := ops_after OpsF a fixed es U0 {rest}.\n"
    # evaluate the refreshed matrices at every position the rebuilt matrices store
    t += ("Definition at_positions (M : dense OpsF) (m : coo (float*float)) :=\n"
          "  map (fun '(r,c,_) => (Z.of_nat r, Z.of_nat c, M r c)) m.\n")
    last = f"U{len(Us) - 1}"
    t += f"Eval vm_compute in at_positions (snd st) (clap_coo OpsF a fixed es {last}).\n"
    t += f"Eval vm_compute in at_positions (fst st) (cgrad_coo OpsF 0 es {last}).\n"
    return t, ops, case


def cmp_model(rep, out, ops, case):
    lap = common.parse_nested(common.eval_block(out, 0))[0]
    grad = common.parse_nested(common.eval_block(out, 1))[0]
    dm = {(int(r), int(c)): complex(v[0], v[1]) for r, c, v in lap}
    bad = cmp_dicts(dm, sparse_dict(ops.psi_laplacian))
    if bad:
        rep.not_shown("correspondence: refreshed psi_laplacian differs from the model's ops_after", {**case, "first": bad[:3]})
    dg = {(int(r), int(c)): complex(v[0], v[1]) for r, c, v in grad}
    bad2 = cmp_dicts(dg, sparse_dict(ops.psi_gradient))
    if bad2:
        rep.not_shown("correspondence: refreshed psi_gradient differs from the model's ops_after", {**case, "first": bad2[:3]})
    return bool(bad or bad2)


def solver_case(rep, rng, dev, kind, screening, ci, mode=None):
    """Real run; after every update compare the operators in use with a rebuild."""
    xi = dev.coherence_length.magnitude
    if kind == "slow_ramp":
        A = runs.ramp_field_param(1.0, 1.01, 20.0)
    elif kind == "fast_ramp":
        A = runs.ramp_field_param(0.0, 0.5, 1.0)
    elif kind == "tiny_ramp":
        # a very weak, very slow ramp: the potential changes by ~1e-15 (dimensionless) per step - still a change
        A = runs.ramp_field_param(0.0, 1e-10, 50.0)
    elif kind == "tiny_on_large":
        # ... and the same tiny drift on top of a large static field (relative change ~1e-13 per step)
        A = runs.ramp_field_param(5.0, 5.0 * (1 + 2e-10), 50.0)
    elif kind == "steps":
        A = runs.step_field_param([0.0, 0.3, 0.3, 0.0, 0.2], 0.25)
    elif kind == "switch_off":
        A = runs.step_field_param([0.3, 0.0, 0.0, 0.3, 0.0], 0.2)
    else:
        A = 0.2
    seen, held_ids, cur_ids, stale = [], [], [], []

    def ident(arr):
        for k, s in enumerate(seen):
            if np.array_equal(s, arr):
                return k
        seen.append(np.array(arr, copy=True))
        return len(seen) - 1

    mism = []

    def on_step(solver, state, kw, res):
        ops = solver.operators
        ref = fresh_ops(dev.mesh, ops.fixed_sites, ops.fix_psi, ops.link_exponents)
        if not same_matrix(ops.psi_laplacian, ref.psi_laplacian) or not same_matrix(ops.psi_gradient, ref.psi_gradient):
            mism.append(("partial", state["step"]))
        if not screening:
            cur = solver.current_A_applied
            cur_ids.append(ident(cur))
            held_ids.append(ident(ops.link_exponents))
            if not np.array_equal(cur, ops.link_exponents):
                stale.append((state["step"], float(np.max(np.abs(cur - ops.link_exponents)))))

    scr_stale = []
    track = {}

    def before(solver, state, kw):
        track["Aind"] = np.array(kw["induced_vector_potential"], copy=True)
        if "wrapped" not in track:
            # with screening the operators are refreshed inside the step, once per self-consistency iteration: every Euler
            # update must see operators built for (applied + induced potential of the previous iteration)
            track["wrapped"] = True
            orig_euler, orig_giv = solver.adaptive_euler_step, solver.get_induced_vector_potential

            def euler(step, *a, **k):
                want = np.asarray(solver.current_A_applied) + track["Aind"]
                ops = solver.operators
                if not np.array_equal(np.asarray(ops.link_exponents), want):
                    scr_stale.append((int(step), track.get("it", 0), float(np.max(np.abs(np.asarray(ops.link_exponents) - want)))))
                track["it"] = track.get("it", 0) + 1
                return orig_euler(step, *a, **k)

            def giv(*a, **k):
                A_, err = orig_giv(*a, **k)
                track["Aind"] = np.array(A_, copy=True)
                return A_, err

            if screening:
                solver.adaptive_euler_step, solver.get_induced_vector_potential = euler, giv
        track["it"] = 0

    with tempfile.TemporaryDirectory(prefix="pyt_c10_") as td:
        extra = {}
        seed_sol = None
        if mode == "skip":
            extra["skip_time"] = 0.05          # screening together with thermalisation: the recorded stage restarts at step 0
        if mode == "seed":
            # screening together with a seed solution that carries a non-zero induced potential
            sopts = runs.make_options(td, solve_time=0.08, dt_init=1e-2, dt_max=1e-2, adaptive=False, save_every=50,
                                      include_screening=True, screening_tolerance=1e-2, output_file=td + "/seed.h5")
            try:
                seed_sol, _ = runs.traced_solve(dev, sopts, A=0.4, currents={"source": 0.5, "drain": -0.5} if len(dev.terminals) >= 2 else None)
            except RuntimeError as e:
                if "Screening calculation failed to converge" not in str(e):
                    raise
                rep.coverage["screening_runs_that_failed_to_converge"] = rep.coverage.get("screening_runs_that_failed_to_converge", 0) + 1
                return [], [], {}
        opts = runs.make_options(td, solve_time=1.2 if not screening else 0.3, dt_init=1e-2, dt_max=1e-2,
                                 adaptive=False, save_every=50, include_screening=screening,
                                 screening_tolerance=1e-2, **extra)
        cur = {"source": 0.5, "drain": -0.5} if len(dev.terminals) >= 2 else None
        # every other unscreened run solves the same solver object a second time (shorter): the operators must follow the
        # potential from the first step of the second run too
        again = 1 if (not screening and ci % 2 == 1) else 0

        def between(solver, k):
            solver.options.solve_time = 0.45

        try:
            runs.traced_solve(dev, opts, A=A, currents=cur, on_step=on_step, before_step=before, resolve=again, between=between,
                              seed_solution=seed_sol)
        except RuntimeError as e:
            # failing to converge is an allowed outcome of a screening run (C13); the steps taken until then were checked
            if "Screening calculation failed to converge" not in str(e):
                raise
            rep.coverage["screening_runs_that_failed_to_converge"] = rep.coverage.get("screening_runs_that_failed_to_converge", 0) + 1
    case = {"run": ci, "drive": kind, "screening": screening, "steps": len(cur_ids) or None, "solved_again": again, "with": mode}
    if scr_stale:
        rep.violation("stale operators inside a screening step: an Euler update ran with link exponents that are not (applied + "
                      "induced potential of the previous iteration)",
                      {**case, "first": {"step": scr_stale[0][0], "iteration": scr_stale[0][1], "max_abs_diff": scr_stale[0][2]},
                       "count": len(scr_stale)})
    if mism:
        rep.violation("operators partially updated: matrices differ from a rebuild for their own link exponents",
                      {**case, "first": mism[:3]})
    if stale:
        rep.violation("stale operators: link exponents in use differ from the latest applied vector potential",
                      {**case, "first_stale_step": stale[0][0], "max_abs_diff": max(s[1] for s in stale),
                       "stale_steps": len(stale)})
    rep.count(1)
    rep.nontrivial(("run", kind, screening))
    rep.sample(case)
    return cur_ids, held_ids, case


def run(rep: common.Report, tier: str, seed: int, replay=None) -> int:
    rep.use_props(common.check_props("C10"))
    rng = random.Random(seed * 7919 + 10)
    nsmall, nbig = (10, 6) if tier == "quick" else (40, 30)
    texts, info = [], []
    for mi in range(nsmall):
        mesh = meshes.delaunay_mesh(rng, rng.choice([10, 16, 25, 36]), rng.choice(["random", "jitter", "grid"]))
        t, ops, case = operator_case(rep, rng, mesh, mi, small=True)
        texts.append(t)
        info.append((ops, case))
    patterns = ["A0", "A00", "0A", "00A", "AA", "ABA", "A0A", "0A0", "AB0", "AAB", "0", "A", "A0B0", "ABAB0A", "Aa", "AaA", "Aab", "0a0A", "aAa"]
    for pi, pat in enumerate(patterns):
        mesh = meshes.delaunay_mesh(rng, 30, "random")
        operator_case(rep, rng, mesh, 1000 + pi, small=False, pattern=pat)
    for mi in range(nbig):
        if mi % 2:
            mesh = meshes.delaunay_mesh(rng, rng.choice([100, 200]), "random", smooth=rng.choice([0, 2]))
        else:
            mesh = meshes.make_device(rng, holes=rng.choice([0, 1]), terminals=2, max_edge_length=0.8).mesh
        operator_case(rep, rng, mesh, nsmall + mi, small=False)
    outs = common.run_model_shards("c10_case", texts, jobs=8)
    ndis = 0
    for (rc, out), (ops, case) in zip(outs, info):
        if rc != 0:
            rep.not_shown("correspondence: model evaluation failed", {**case, "log": out[-1200:]})
            continue
        ndis += cmp_model(rep, out, ops, case)
    # solver level
    dev = meshes.make_device(rng, holes=1, terminals=2, max_edge_length=0.9)
    plans = [("slow_ramp", False), ("fast_ramp", False), ("steps", False), ("switch_off", False), ("const", False), ("fast_ramp", True),
             ("tiny_ramp", False), ("tiny_on_large", False)]
    # feature pairs: screening with thermalisation / with a seed solution carrying an induced potential (static and ramped field)
    plans += [("const", True, "skip"), ("const", True, "seed"), ("fast_ramp", True, "seed")]
    if tier == "thorough":
        plans += [("steps", True), ("slow_ramp", True), ("steps", True, "skip")]
    trig = []
    for ci, plan in enumerate(plans):
        kind, scr = plan[:2]
        cur_ids, held_ids, case = solver_case(rep, rng, dev, kind, scr, ci, mode=plan[2] if len(plan) > 2 else None)
        if cur_ids:
            trig.append((cur_ids, held_ids, case))
    if trig:
        t = ("From Coq Require Import List ZArith.\nImport ListNotations.\n"
             "From PyTdgl Require Import Base.Ops Model.Refresh.\nOpen Scope Z_scope.\n"
             "Fixpoint scan (st : Z*Z) (l : list Z) : list Z :=\n"
             "  match l with [] => [] | x :: tl => let st' := trigger_step Z Z.eqb st x in snd st' :: scan st' tl end.\n")
        for cur_ids, _, _ in trig:
            t += f"Eval vm_compute in scan (0, 0) {coq_list([str(i) for i in cur_ids], per_line=30)}.\n"
        rc, out = common.run_model("c10_trigger", t)
        if rc != 0:
            rep.not_shown("correspondence: trigger model evaluation failed", {"log": out[-1200:]})
        else:
            for k, (cur_ids, held_ids, case) in enumerate(trig):
                mv = [int(x) for x in common.parse_nested(common.eval_block(out, k))[0]]
                if mv != held_ids:
                    first = next(i for i, (a, b) in enumerate(zip(mv, held_ids)) if a != b)
                    ndis += 1
                    rep.not_shown("correspondence: exponents held by the operators do not follow the model's trigger",
                                  {**case, "first_step": first, "model_held": mv[first], "impl_held": held_ids[first]})
    rep.coverage.update({"operator_cases": nsmall + nbig, "model_compared_cases": nsmall, "solver_runs": len(plans),
                         "correspondence_disagreements": ndis})
    rep.assumptions += ["link variables exp(-i A.dir) computed by numpy and passed to the model as data",
                        "sparse __setitem__ modelled as ordered overwrites of stored entries (set_many)"]
    return rep.finish(level="proof", trusted_base=common.STD_TRUSTED,
                      rule="operator cases = (mesh, pinned-set mode, sequence of 1-6 potentials incl. repeats/zeros); "
                           "solver cases = drives x screening; non-trivial = distinct (mode, length, pinned?, has-zero) / (drive, screening)")
