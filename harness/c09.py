"""C09 - simulations are deterministic and reproducible bit for bit.

Runtime part (measured, not provable): the same configuration is run in fresh processes with
NUMBA_NUM_THREADS in {1,2,4,8,16}, different output directories and PYTHONHASHSEEDs; sha256 of the mesh
arrays and of every dataset / bookkeeping attribute except the wall-clock timestamps must coincide.
Logic part: Props/C09.v (schedule independence of the prange kernels, validation sampling, get_edges as a
function of the triangle set), plus a correspondence of get_edges with Model.Sched.get_edges."""
from __future__ import annotations

import json
import os
import random
import subprocess
import tempfile

import numpy as np

from . import common
from .common import coq_list


def worker(cfg, threads, hashseed):
    env = common.impl_env()
    env["NUMBA_NUM_THREADS"] = str(threads)
    env["OMP_NUM_THREADS"] = str(threads)
    env["PYTHONHASHSEED"] = str(hashseed)
    r = subprocess.run([common.PY, "-W", "ignore", str(common.ROOT / "harness" / "c09_worker.py"), json.dumps(cfg)],
                       env=env, capture_output=True, text=True, timeout=1200)
    for line in r.stdout.splitlines():
        if line.startswith("RESULT "):
            return json.loads(line[7:])
    return {"error": (r.stdout + r.stderr)[-800:]}


def run(rep: common.Report, tier: str, seed: int, replay=None) -> int:
    from concurrent.futures import ThreadPoolExecutor
    rep.use_props(common.check_props("C09"))
    rng = random.Random(seed * 7919 + 9)
    configs = [dict(screening=False, adaptive=True, ramp=False, solve_time=0.3),
               dict(screening=True, adaptive=True, ramp=False, solve_time=0.08),
               dict(screening=False, adaptive=False, ramp=True, solve_time=0.12),
               dict(screening=False, adaptive=True, ramp=False, solve_time=0.15, four_terminals=True),
               dict(screening=False, adaptive=True, ramp=False, solve_time=0.1, min_points=900, mel=0.5),
               # progress reported through the logger every few steps (wall-clock readings are taken there), time-dependent field
               dict(screening=False, adaptive=True, ramp=True, solve_time=0.1, progress_interval=7),
               # two continuations from one in-memory seed solution, with screening (the seed's stored fields are inputs)
               dict(screening=True, adaptive=True, ramp=False, solve_time=0.06, seeded_twice=True)]
    if tier == "thorough":
        configs += [dict(screening=True, adaptive=True, ramp=True, solve_time=0.08), dict(screening=False, adaptive=True, ramp=True, solve_time=0.3, mel=0.6)]
    variants = [(1, 0), (4, 1), (16, 2), (2, 3)] if tier == "quick" else [(1, 0), (2, 1), (4, 2), (8, 3), (16, 4), (16, 5), (1, 6), (3, 7)]
    with tempfile.TemporaryDirectory(prefix="pyt_c09_") as td:
        jobs = []
        for ci, cfg in enumerate(configs):
            for vi, (th, hs) in enumerate(variants):
                c = dict(cfg)
                c["outdir"] = os.path.join(td, f"c{ci}", f"v{vi}", "deep" * (vi % 2))
                c["fname"] = f"run_{vi}.h5"
                if vi == len(variants) - 1:
                    c["warm"] = True           # the last variant repeats the problem inside one process
                jobs.append((ci, vi, th, hs, c))
        with ThreadPoolExecutor(max_workers=4) as ex:
            results = list(ex.map(lambda j: worker(j[4], j[2], j[3]), jobs))
        for ci, cfg in enumerate(configs):
            mine = [(j, r) for j, r in zip(jobs, results) if j[0] == ci]
            ref_job, ref = mine[0]
            if "error" in ref:
                rep.not_shown("reproducibility worker failed", {"config": cfg, "error": ref["error"]})
                continue
            for (j, r) in mine:
                if r.get("repeat_diff"):
                    rep.violation("two runs with identical inputs (continuations from the same seed solution) inside one process are "
                                  "not bit-identical", {"config": cfg, "first_differing": r["repeat_diff"]})
                    break
            for (j, r) in mine[1:]:
                case = {"config": {k: v for k, v in cfg.items()}, "threads": [ref_job[2], j[2]], "hashseeds": [ref_job[3], j[3]]}
                if "error" in r:
                    rep.not_shown("reproducibility worker failed", {**case, "error": r["error"]})
                    continue
                dm = [k for k in ref["mesh"] if ref["mesh"][k] != r["mesh"].get(k)]
                if dm:
                    rep.violation("mesh arrays differ between two fresh processes", {**case, "arrays": dm})
                if set(ref["data"]) != set(r["data"]):
                    rep.violation("recorded datasets differ in number / names between two runs of the same inputs",
                                  {**case, "only_in_one": sorted(set(ref['data']) ^ set(r['data']))[:5]})
                else:
                    dd = [k for k in ref["data"] if ref["data"][k] != r["data"][k]]
                    if dd:
                        rep.violation("recorded fields / time steps are not bit-identical between two runs of the same inputs",
                                      {**case, "first_differing": sorted(dd)[:4], "count": len(dd)})
                rep.count(1)
                rep.nontrivial((ci, j[2], j[3]))
            rep.sample({"config": cfg, "datasets_hashed": len(ref["data"]), "mesh_arrays_hashed": len(ref["mesh"]),
                        "variants(threads,hashseed)": variants})
    # ---- correspondence: get_edges
    from tdgl.finite_volume.util import get_edges
    lits, impl = [], []
    for _ in range(20):
        n = rng.randint(4, 9)
        tris = []
        for _ in range(rng.randint(1, 8)):
            a, b, c = rng.sample(range(n), 3)
            tris.append((a, b, c))
        e, isb = get_edges(np.array(tris))
        impl.append([[int(x[0]), int(x[1]), bool(bd)] for x, bd in zip(e, isb)])
        lits.append(f"({n}%nat, {coq_list([f'({a}%nat, {b}%nat, {c}%nat)' for a, b, c in tris], per_line=8)})")
    t = ("From Coq Require Import List ZArith.\nImport ListNotations.\nFrom PyTdgl Require Import Model.Sched.\n"
         "Eval vm_compute in map (fun '(n, ts) => map (fun '(p, b) => (Z.of_nat (fst p), Z.of_nat (snd p), b)) (get_edges n ts)) "
         + coq_list(lits, per_line=1) + ".\n")
    rc, out = common.run_model("c09_edges", t)
    ndis = 0
    if rc != 0:
        rep.not_shown("correspondence: model evaluation failed", {"log": out[-1200:]})
    else:
        res = common.parse_nested(common.eval_block(out))[0]
        for m, i in zip(res, impl):
            mm = [[int(x[0]), int(x[1]), bool(x[2])] for x in m]
            if mm != i:
                ndis += 1
                rep.not_shown("correspondence: get_edges differs from Model.Sched.get_edges", {"model": mm[:4], "impl": i[:4]})
    rep.coverage.update({"configurations": len(configs), "process_variants": len(variants), "correspondence_disagreements": ndis})
    rep.assumptions += ["PARTIAL: bit-identity across processes / thread counts / hash seeds is measured, not proved; the theorems "
                        "cover the logic of the parallel kernels at iteration granularity only"]
    return rep.finish(level="proof", trusted_base=common.STD_TRUSTED,
                      rule="one evaluation = one fresh-process run compared with the reference run of its configuration; "
                           "non-trivial = distinct (configuration, threads, hash seed)")
