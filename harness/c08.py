"""C08 - results do not depend on the unit system; flux per triangle.

Correspondence: TDGLSolver's A_scale, J_scale and screening area factors vs Model.Units (PrimFloat) for
random (xi, lambda, d) and all 27 unit triples (um/nm/mm, mT/uT/T, uA/nA/mA).
Oracle: the sum of the implementation's link exponents around every mesh triangle in a uniform field
equals 2 pi * flux / Phi_0; triples of real runs stating the same physical problem in three unit systems
(sharing ONE dimensionless mesh, because Triangle's output is not scale invariant) agree frame by frame
(|psi|, currents, mu up to a constant) and in physical output units, screening on and off."""
from __future__ import annotations

import itertools
import random
import tempfile

import h5py
import numpy as np

from . import common, meshes, runs
from .common import flit, coq_list

LU = {"um": 1e-6, "nm": 1e-9, "mm": 1e-3, "m": 1.0}
FU = {"mT": 1e-3, "uT": 1e-6, "T": 1.0}
CU = {"uA": 1e-6, "nA": 1e-9, "mA": 1e-3}


def device_in(base, lu, mesh=None):
    """The same physical device stated in length unit `lu` (base is in um)."""
    import tdgl
    f = LU["um"] / LU[lu]
    lay = base.layer
    layer = tdgl.Layer(coherence_length=lay.coherence_length * f, london_lambda=lay.london_lambda * f,
                       thickness=lay.thickness * f, gamma=lay.gamma, u=lay.u, z0=lay.z0 * f)
    sc = lambda p: tdgl.Polygon(p.name, points=p.points * f)
    dev = tdgl.Device(base.name, layer=layer, film=sc(base.film), holes=[sc(h) for h in base.holes],
                      terminals=[sc(t) for t in base.terminals],
                      probe_points=None if base.probe_points is None else base.probe_points * f, length_units=lu)
    dev.mesh = base.mesh if mesh is None else mesh        # identical dimensionless mesh
    return dev


def run(rep: common.Report, tier: str, seed: int, replay=None) -> int:
    import tdgl
    from tdgl.solver.solver import TDGLSolver
    rep.use_props(common.check_props("C08"))
    rng = random.Random(seed * 7919 + 8)
    ureg = tdgl.Device.ureg
    Phi0 = float(ureg("Phi_0").to_base_units().magnitude)
    mu0 = float(ureg("mu_0").to_base_units().magnitude)
    base = meshes.make_device(rng, holes=1, terminals=2, max_edge_length=1.2)
    # ---------- scale factors vs model, all 27 unit triples ----------
    lits, impls = [], []
    for lu, fu, cu in itertools.product(LU, FU, CU):
        for rep_i in range(1 if tier == "quick" else 3):
            xi, lam, d = 10 ** rng.uniform(-1.5, 0.5), 10 ** rng.uniform(-1, 1), 10 ** rng.uniform(-2, 0)
            g = xi / base.layer.coherence_length          # keep the geometry attached to the shared dimensionless mesh
            scp = lambda p: tdgl.Polygon(p.name, points=p.points * g)
            b2 = tdgl.Device("b", layer=tdgl.Layer(coherence_length=xi, london_lambda=lam, thickness=d, gamma=10),
                             film=scp(base.film), holes=[scp(h) for h in base.holes], terminals=[scp(t) for t in base.terminals],
                             length_units="um")
            dev = device_in(b2, lu, mesh=base.mesh)
            opts = runs.make_options(None, solve_time=0.01, field_units=fu, current_units=cu, include_screening=True)
            s = TDGLSolver(dev, opts, applied_vector_potential=0.0, terminal_currents={"source": 1.0, "drain": -1.0})
            Jsc = s.current_func(0.0)["source"]
            a0 = float(s.areas[0] / dev.mesh.areas[0])
            impls.append((float(s.A_scale), float(Jsc), a0, {"units": [lu, fu, cu], "xi": xi, "lambda": lam, "d": d}))
            f = LU["um"] / LU[lu]
            lits.append(f"(Build_usys OpsF {flit(LU[lu])} {flit(FU[fu])} {flit(CU[cu])}, "
                        f"Build_devnum OpsF {flit(dev.layer.coherence_length)} {flit(dev.layer.london_lambda)} {flit(dev.layer.thickness)})")
            rep.count(1)
            rep.nontrivial((lu, fu, cu))
            if rng.random() < 0.4:
                # history form: the SAME device object used again after its layer was changed in place (a parameter sweep);
                # every scale must follow the new values (nothing may be remembered from the first use)
                _ = (dev.K0, dev.A0, dev.Bc2, dev.Lambda)
                dev.layer.london_lambda = dev.layer.london_lambda * 10 ** rng.uniform(-0.5, 0.5)
                dev.layer.thickness = dev.layer.thickness * 10 ** rng.uniform(-0.5, 0.5)
                s2 = TDGLSolver(dev, opts, applied_vector_potential=0.0, terminal_currents={"source": 1.0, "drain": -1.0})
                impls.append((float(s2.A_scale), float(s2.current_func(0.0)["source"]), float(s2.areas[0] / dev.mesh.areas[0]),
                              {"units": [lu, fu, cu], "xi": dev.layer.coherence_length, "lambda": dev.layer.london_lambda,
                               "d": dev.layer.thickness, "form": "device reused after an in-place layer change"}))
                lits.append(f"(Build_usys OpsF {flit(LU[lu])} {flit(FU[fu])} {flit(CU[cu])}, "
                            f"Build_devnum OpsF {flit(dev.layer.coherence_length)} {flit(dev.layer.london_lambda)} {flit(dev.layer.thickness)})")
                rep.count(1)
                rep.nontrivial((lu, fu, cu, "reused"))
    t = ("From Coq Require Import PrimFloat List.\nImport ListNotations.\nFrom PyTdgl Require Import Base.Ops Model.Units.\nOpen Scope float_scope.\n"
         f"Definition Phi0 := {flit(Phi0)}.\nDefinition mu0 := {flit(mu0)}.\nDefinition twopi := {flit(2 * np.pi)}.\nDefinition fourpi := {flit(4 * np.pi)}.\n"
         "Eval vm_compute in map (fun '(u, v) => [A_scale OpsF Phi0 twopi u v; J_scale OpsF Phi0 mu0 twopi u v;\n"
         "    scr_area OpsF Phi0 mu0 twopi fourpi u v 1]) " + coq_list(lits, per_line=1) + ".\n")
    rc, out = common.run_model("c08_scales", t)
    ndis = 0
    if rc != 0:
        rep.not_shown("correspondence: model evaluation failed", {"log": out[-1500:]})
    else:
        res = common.parse_nested(common.eval_block(out))[0]
        for (As, Js, a0, case), m in zip(impls, res):
            for nm, iv, mv in (("A_scale", As, m[0]), ("J_scale", Js, m[1]), ("screening area factor", a0, m[2])):
                if abs(iv - mv) > 1e-10 * abs(mv):
                    ndis += 1
                    if ndis < 8:
                        rep.not_shown(f"correspondence: {nm} differs from Model.Units", {**case, "impl": iv, "model": mv})
    # ---------- the device's physical scales (SI), whatever length unit the device is stated in ----------
    for si in range(4 if tier == "quick" else 20):
        xi_m, lam_m, d_m = 10 ** rng.uniform(-7.5, -5.5), 10 ** rng.uniform(-7, -5), 10 ** rng.uniform(-8, -6)
        sigma_si = 10 ** rng.uniform(5, 8)                      # S / m
        want = {"Bc2": Phi0 / (2 * np.pi * xi_m ** 2), "A0": Phi0 / (2 * np.pi * xi_m), "Lambda": lam_m ** 2 / d_m, "kappa": lam_m / xi_m,
                "K0": 4 * xi_m * (Phi0 / (2 * np.pi * xi_m ** 2)) / (mu0 * lam_m ** 2 / d_m),
                "tau0": mu0 * sigma_si * lam_m ** 2,
                "V0": xi_m * (4 * xi_m * (Phi0 / (2 * np.pi * xi_m ** 2)) / (mu0 * lam_m ** 2 / d_m) / d_m) / sigma_si,
                "conductivity": sigma_si}
        for lu in LU:
            u_ = LU[lu]
            dvs = tdgl.Device("scales", layer=tdgl.Layer(coherence_length=xi_m / u_, london_lambda=lam_m / u_, thickness=d_m / u_,
                                                         conductivity=sigma_si * u_),
                              film=tdgl.Polygon("film", points=np.array([[0, 0], [1, 0], [1, 1], [0, 1]]) * (1e-6 / u_)), length_units=lu)
            got = {"Bc2": dvs.Bc2, "A0": dvs.A0, "Lambda": dvs.Lambda, "K0": dvs.K0, "tau0": dvs.tau0(), "V0": dvs.V0(),
                   "conductivity": dvs.conductivity}
            for nm_, q_ in got.items():
                v_ = float(q_.to_base_units().magnitude)
                if abs(v_ - want[nm_]) > 1e-9 * abs(want[nm_]):
                    rep.violation(f"Device.{nm_} (SI) depends on the length unit the device is stated in / is not the documented formula",
                                  {"length_units": lu, "got": v_, "expected": want[nm_], "xi_m": xi_m, "lambda_m": lam_m, "d_m": d_m, "sigma": sigma_si})
            if abs(float(dvs.kappa) - want["kappa"]) > 1e-9 * want["kappa"]:
                rep.violation("Device.kappa depends on the length unit", {"length_units": lu})
            rep.count(1)
        rep.nontrivial(("device-scales", si))
    # ---------- flux per triangle ----------
    for lu, fu, B in (("um", "mT", 0.7), ("nm", "uT", 350.0), ("mm", "T", 2e-4)):
        dev = device_in(base, lu)
        opts = runs.make_options(None, solve_time=0.01, field_units=fu)
        s = TDGLSolver(dev, opts, applied_vector_potential=B)
        m = dev.mesh
        em = m.edge_mesh
        theta = np.einsum("ij,ij->i", s.operators.link_exponents, em.directions)          # exponent of (i -> j), i < j
        lookup = {(int(a), int(b)): k for k, (a, b) in enumerate(em.edges)}
        xi_si = dev.layer.coherence_length * LU[lu]
        worst = 0.0
        for tri in m.elements:
            tot = 0.0
            for a, b in ((tri[0], tri[1]), (tri[1], tri[2]), (tri[2], tri[0])):
                k = lookup[(min(a, b), max(a, b))]
                tot += theta[k] if a < b else -theta[k]
            p = m.sites[tri]
            area = 0.5 * ((p[1, 0] - p[0, 0]) * (p[2, 1] - p[0, 1]) - (p[2, 0] - p[0, 0]) * (p[1, 1] - p[0, 1])) * xi_si ** 2
            want = 2 * np.pi * (B * FU[fu]) * area / Phi0
            worst = max(worst, abs(tot - want) / (abs(want) + 1e-300))
        if worst > 1e-8:
            rep.violation(f"phase around a mesh triangle differs from 2 pi flux / Phi_0 (max rel {worst:.2e})",
                          {"units": [lu, fu], "B": B})
        rep.count(len(m.elements))
        rep.nontrivial(("flux", lu, fu))
    # ---------- the field helpers with positions / fields given as pint quantities in any unit ----------
    from tdgl.em import uniform_Bz_vector_potential
    pos_um = np.array([[rng.uniform(-3, 3), rng.uniform(-2, 2), 0.0] for _ in range(7)])
    ref_A = np.asarray(uniform_Bz_vector_potential(pos_um * 1e-6, 0.7e-3).to("T * m").magnitude)        # metres, tesla as floats
    for lu_, f_ in (("um", 1.0), ("nm", 1e3), ("mm", 1e-3), ("m", 1e-6)):
        for Bq in (0.7 * ureg("mT"), "0.7 mT", 700.0 * ureg("uT"), 0.7e-3):
            got_A = np.asarray(uniform_Bz_vector_potential((pos_um * f_) * ureg(lu_), Bq).to("T * m").magnitude)
            if np.max(np.abs(got_A - ref_A)) > 1e-12 * float(np.max(np.abs(ref_A))):
                rep.violation("uniform_Bz_vector_potential: the same positions / field stated in other units give another potential",
                              {"length_units": lu_, "field": str(Bq), "max_rel": float(np.max(np.abs(got_A - ref_A)) / np.max(np.abs(ref_A)))})
            rep.count(1)
    # ---------- the same physical problem in three unit systems ----------
    # matched and unmatched prefixes (uA/um = nA/nm = mA/mm = 1 A/m would hide a missing prefix conversion)
    systems = [("um", "mT", "uA"), ("nm", "uT", "nA"), ("mm", "T", "mA"), ("um", "T", "mA"), ("nm", "mT", "uA"),
               ("m", "mT", "uA")]     # SI lengths: coordinates of order 1e-6
    B_T, I_A = 0.4e-3, 2.0e-6
    # tpsi: the order parameter imposed on the contacts; with a non-zero value the phase of the film relative to the contacts is
    # physical, so that an arbitrary (rounding-level, unit-dependent) constant in the scalar potential would show in |psi| and K
    for screening, ramp, tpsi in ((False, False, 0.0), (True, False, 0.0), (False, True, 0.0), (False, False, 0.5)):
        frames, phys, failed, fields, grids = {}, {}, {}, {}, {}
        P_um = np.array([[0.7, -0.4, 0.8], [-1.5, 0.9, 1.5], [2.1, 0.2, -0.6], [0.0, 0.0, 2.0]])
        with tempfile.TemporaryDirectory(prefix="pyt_c08_") as td:
            opts, kept = None, []
            for lu, fu, cu in systems:
                dev = device_in(base, lu)
                if opts is None:
                    opts = runs.make_options(td, solve_time=0.25 if not screening else 0.06, dt_init=2e-3, dt_max=2e-2, save_every=10,
                                             field_units=fu, current_units=cu, include_screening=screening, screening_tolerance=1e-3,
                                             terminal_psi=tpsi,
                                             output_file=f"{td}/r_{lu}_{fu}_{cu}_{int(screening)}{int(ramp)}.h5")
                else:
                    # history form: ONE options object, re-stated in the next unit system (the earlier solutions are kept and
                    # queried again below: their physical outputs must not follow the caller's later changes)
                    opts.field_units, opts.current_units = fu, cu
                    opts.output_file = f"{td}/r_{lu}_{fu}_{cu}_{int(screening)}{int(ramp)}.h5"
                try:
                    # ramp: a time-dependent uniform field (0.2 B -> B over 0.1 tau), stated in the run's own units
                    Afield = (runs.ramp_field_param(0.2 * B_T / FU[fu], B_T / FU[fu], 0.1, field_units=fu, length_units=lu)
                              if ramp else B_T / FU[fu])
                    sol = tdgl.solve(dev, opts, applied_vector_potential=Afield,
                                     terminal_currents={"source": I_A / CU[cu], "drain": -I_A / CU[cu]})
                except RuntimeError as e:
                    failed[f"{lu}/{fu}/{cu}"] = str(e)[:160]
                    continue
                with h5py.File(sol.path, "r") as f:
                    key_ = "um" if (lu, fu, cu) == systems[0] else f"{lu}/{fu}/{cu}"
                    frames[key_] = [{k: np.array(f["data"][key][k]) for k in ("psi", "mu", "supercurrent", "normal_current")}
                                  for key in sorted(f["data"], key=int)]
                K = (sol.supercurrent_density + sol.normal_current_density).to("A / m").magnitude
                phys[key_] = K
                # fields computed from the solution, in SI, at the same physical points
                Pphys = P_um * (LU["um"] / LU[lu])
                Bf = np.asarray(sol.field_at_position(Pphys, vector=True, units="tesla", with_units=False))
                Ad = sol.vector_potential_at_position(Pphys, units="T * m", return_sum=False, with_units=False)
                Af = sum(np.asarray(v) for k_, v in Ad.items() if k_ != "applied")
                fields[key_] = (Bf, Af)
                # the gridded / interpolated current densities (public post-processing API), asked for in SI with the default
                # with_units=False, on the same relative grid / at the same physical points
                try:
                    gx_, gy_, gJ_ = sol.grid_current_density(grid_shape=(14, 11), units="A / m", with_units=False)
                    iJ_ = sol.interp_current_density(Pphys[:, :2], units="A / m", with_units=False)
                    psi_i = np.abs(np.asarray(sol.interp_order_parameter(Pphys[:, :2])))
                    vort = np.asarray(sol.vorticity.to("A / m ** 2").magnitude, dtype=float)
                    grids[key_] = (np.asarray(gJ_, dtype=float), np.asarray(iJ_, dtype=float), psi_i, vort,
                                   np.asarray(getattr(gx_, "magnitude", gx_), dtype=float), np.asarray(getattr(gy_, "magnitude", gy_), dtype=float),
                                   np.array(dev.points, copy=True))
                except Exception as e:  # noqa: BLE001
                    grids[key_] = f"{type(e).__name__}: {e}"[:160]
                Atot = np.asarray(sol.vector_potential_at_position(Pphys, units="T * m", return_sum=True, with_units=False))
                kept.append((key_, sol, Pphys, K, Bf, Atot))
            for key_, sol_, Pp_, K_, Bf_, At_ in kept:
                K2 = (sol_.supercurrent_density + sol_.normal_current_density).to("A / m").magnitude
                B2 = np.asarray(sol_.field_at_position(Pp_, vector=True, units="tesla", with_units=False))
                A2 = np.asarray(sol_.vector_potential_at_position(Pp_, units="T * m", return_sum=True, with_units=False))
                changed = [nm for nm, x, y in (("current density", K_, K2), ("magnetic field", Bf_, B2), ("total vector potential", At_, A2))
                           if not np.array_equal(x, y)]
                if changed:
                    rep.violation("the physical outputs of an earlier solution changed after the caller re-stated its options object in "
                                  "another unit system for a later run: " + ", ".join(changed),
                                  {"solution_units": key_, "screening": screening, "time_dependent_field": ramp,
                                   "max_rel_change_A": float(np.max(np.abs(A2 - At_)) / (np.max(np.abs(At_)) + 1e-300))})
                    break
            if failed and len(failed) < len(systems):
                rep.violation("the same physical problem runs in one unit system and fails in another",
                              {"screening": screening, "failed": failed, "ran": sorted(frames), "B_tesla": B_T, "I_amp": I_A})
            elif failed:
                rep.not_shown("unit-system runs: the reference problem failed in every unit system", {"screening": screening, "failed": failed})
            if "um" not in frames:
                continue
            ref = frames["um"]
            for lu in [k_ for k_ in frames if k_ != "um"]:
                case = {"units": lu, "screening": screening, "time_dependent_field": ramp, "terminal_psi": tpsi, "frames": len(ref)}
                if len(frames[lu]) != len(ref):
                    rep.violation("the same physical problem recorded a different number of frames in another unit system", case)
                    continue
                tol = 1e-8 if not screening else 1e-6
                for k, (a, b) in enumerate(zip(ref, frames[lu])):
                    bad = None
                    if np.max(np.abs(np.abs(a["psi"]) - np.abs(b["psi"]))) > tol:
                        bad = "|psi|"
                    elif np.max(np.abs(a["supercurrent"] - b["supercurrent"])) > tol * (1 + np.max(np.abs(a["supercurrent"]))):
                        bad = "supercurrent"
                    elif np.max(np.abs(a["normal_current"] - b["normal_current"])) > tol * (1 + np.max(np.abs(a["normal_current"]))):
                        bad = "normal current"
                    elif np.max(np.abs((a["mu"] - a["mu"].mean()) - (b["mu"] - b["mu"].mean()))) > tol * (1 + np.max(np.abs(a["mu"]))):
                        bad = "potential differences"
                    if bad:
                        rep.violation(f"dimensionless {bad} depends on the unit system used to state the problem", {**case, "frame": k})
                        break
                if np.max(np.abs(phys[lu] - phys["um"])) > 10 * tol * (np.max(np.abs(phys["um"])) + 1e-300):
                    rep.violation("the physical current density (A/m) depends on the unit system", case)
                for nm_, a_, b_ in (("magnetic field (T)", fields[lu][0], fields["um"][0]),
                                    ("vector potential of the film currents (T m)", fields[lu][1], fields["um"][1])):
                    if np.max(np.abs(a_ - b_)) > 100 * tol * (np.max(np.abs(b_)) + 1e-300):
                        rep.violation(f"the {nm_} computed from the solution at fixed physical points depends on the unit system", case)
                ga, gb = grids.get(lu), grids.get("um")
                if isinstance(ga, str) or isinstance(gb, str):
                    rep.coverage["postprocessing_failed"] = str(ga if isinstance(ga, str) else gb)
                    if isinstance(ga, str) != isinstance(gb, str):
                        rep.violation("grid / interp_current_density works in one unit system and fails in another", {**case, "error": ga if isinstance(ga, str) else gb})
                elif ga is not None and gb is not None:
                    rep.coverage["postprocessing_outputs_compared"] = rep.coverage.get("postprocessing_outputs_compared", 0) + 4
                    # grid_current_density interpolates with scipy's griddata, i.e. over Qhull's OWN Delaunay triangulation of the site
                    # cloud; where four sites are co-circular either diagonal is a Delaunay triangulation and Qhull's choice follows
                    # the rounding of the scaled coordinates.  The gridded values are therefore compared at the grid points whose
                    # enclosing triangle is the same triple of sites in both unit systems (the interpolation stencil is then the same)
                    from scipy.spatial import Delaunay as _Del
                    tri_a, tri_b = _Del(ga[6]), _Del(gb[6])
                    set_b = {frozenset(int(v_) for v_ in t_) for t_ in tri_b.simplices}
                    sa_ = tri_a.find_simplex(np.column_stack([ga[4].ravel(), ga[5].ravel()]))
                    same_stencil = np.array([k_ >= 0 and frozenset(int(v_) for v_ in tri_a.simplices[k_]) in set_b for k_ in sa_])
                    rep.coverage["grid_points_compared"] = rep.coverage.get("grid_points_compared", 0) + int(same_stencil.sum())
                    rep.coverage["grid_points_with_ambiguous_delaunay_stencil"] = \
                        rep.coverage.get("grid_points_with_ambiguous_delaunay_stencil", 0) + int((~same_stencil & (sa_ >= 0)).sum())
                    for nm_, a_, b_ in (("grid_current_density", ga[0], gb[0]), ("interp_current_density", ga[1], gb[1]),
                                        ("interp_order_parameter (modulus)", ga[2], gb[2]), ("vorticity (A / m^2)", ga[3], gb[3])):
                        okm = np.isfinite(a_) & np.isfinite(b_)
                        if nm_ == "grid_current_density" and a_.shape == b_.shape and a_.shape[-2:] == ga[4].shape:
                            okm = okm & np.broadcast_to(same_stencil.reshape(ga[4].shape), a_.shape)
                        if a_.shape != b_.shape or not np.array_equal(np.isfinite(a_), np.isfinite(b_)) or \
                                np.max(np.abs(a_[okm] - b_[okm])) > 1e-5 * (np.max(np.abs(b_[okm])) + 1e-300):
                            rep.violation(f"Solution.{nm_} (physical units) depends on the unit system the problem was stated in", case)
                rep.count(len(ref))
                rep.nontrivial(("runs", lu, screening, ramp, tpsi))
        rep.sample({"systems": systems, "screening": screening, "frames": len(ref), "B_tesla": B_T, "I_amp": I_A})
    # ---------- a drive that depends on height (current loop above the film) with the film at z0 != 0 ----------
    from tdgl.sources import CurrentLoop
    import copy as _copy
    zbase = _copy.copy(base)
    zbase = device_in(base, "um")
    zbase.layer.z0 = 0.8                                   # um
    zres = {}
    with tempfile.TemporaryDirectory(prefix="pyt_c08z_") as td:
        for lu, fu, cu in (("um", "mT", "uA"), ("nm", "uT", "mA"), ("mm", "mT", "nA")):
            f_ = LU["um"] / LU[lu]
            dz_ = device_in(zbase, lu)
            loop = CurrentLoop(current=2.0e-3 / CU[cu], radius=1.5 * f_, center=(0.4 * f_, -0.3 * f_, 2.1 * f_),
                               current_units=cu, field_units=fu, length_units=lu)
            opts = runs.make_options(td, solve_time=0.1, dt_init=2e-3, dt_max=2e-3, adaptive=False, save_every=10,
                                     field_units=fu, current_units=cu, output_file=f"{td}/z_{lu}.h5")
            try:
                solz = tdgl.solve(dz_, opts, applied_vector_potential=loop)
                with h5py.File(solz.path, "r") as f:
                    last = sorted(f["data"], key=int)[-1]
                    zres[lu] = (np.abs(np.array(f["data"][last]["psi"])), np.array(f["data"][last]["supercurrent"]))
            except Exception as e:  # noqa: BLE001
                zres[lu] = f"{type(e).__name__}: {e}"[:160]
    if any(isinstance(v, str) for v in zres.values()):
        if not all(isinstance(v, str) for v in zres.values()):
            rep.violation("a height-dependent drive (current loop) over a film at z0 != 0 runs in one unit system and fails in another",
                          {k_: (v if isinstance(v, str) else "ran") for k_, v in zres.items()})
    else:
        for lu in ("nm", "mm"):
            da = float(np.max(np.abs(zres[lu][0] - zres["um"][0])))
            dj = float(np.max(np.abs(zres[lu][1] - zres["um"][1])))
            if da > 1e-7 or dj > 1e-7 * (1 + float(np.max(np.abs(zres["um"][1])))):
                rep.violation("with a height-dependent drive (current loop) and a film at z0 != 0 the dimensionless solution depends on the "
                              "unit system", {"units": lu, "max_d|psi|": da, "max_d_supercurrent": dj,
                                              "max_supercurrent": float(np.max(np.abs(zres["um"][1])))})
        rep.count(1)
        rep.nontrivial(("loop-z0", float(np.max(np.abs(zres["um"][1])))))
    rep.coverage.update({"unit_triples": 27, "correspondence_disagreements": ndis})
    rep.assumptions += ["pint's parsing and registry constants (Phi_0, mu_0) are read once and passed to the model as numbers",
                        "one dimensionless mesh is shared by the three descriptions (Triangle is not scale invariant)",
                        "'to rounding': tolerances 1e-8 (no screening) / 1e-6 (screening, tolerance 1e-3) on dimensionless fields"]
    return rep.finish(level="proof", trusted_base=common.STD_TRUSTED,
                      rule="scale factors: one evaluation per unit triple; flux: per mesh triangle; runs: per frame; "
                           "non-trivial = distinct unit triples / systems")
